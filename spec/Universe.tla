----------------------------- MODULE Universe -----------------------------
(***************************************************************************)
(* The small worlds TLC enumerates (DESIGN 5): regex universes, pattern    *)
(* sets, mode graphs, symbol tables and inputs.  Everything is a SEQUENCE  *)
(* built by index arithmetic so that a configuration is referred to by its *)
(* index (cheap states, deterministic sharding).                           *)
(***************************************************************************)
EXTENDS RegexSem, SequencesExt

\* ---- symbol tables: atom k is concretised by the harness as Syms[k].ch ----
\* ch is an ASCII character or "U+XXXX"; n = UTF-8 width; nl = is it the line feed
SymA   == [ch |-> "a",       n |-> 1, nl |-> FALSE]
SymB   == [ch |-> "b",       n |-> 1, nl |-> FALSE]
SymC   == [ch |-> "c",       n |-> 1, nl |-> FALSE]
SymX   == [ch |-> "x",       n |-> 1, nl |-> FALSE]
SymE2  == [ch |-> "U+00E9",  n |-> 2, nl |-> FALSE]   \* e acute
SymE3  == [ch |-> "U+20AC",  n |-> 3, nl |-> FALSE]   \* euro sign
SymS4  == [ch |-> "U+1F600", n |-> 4, nl |-> FALSE]   \* grinning face
SymNL  == [ch |-> "U+000A",  n |-> 1, nl |-> TRUE]

\* ---- inputs: all words over atoms 1..na up to length n, as [w, off, nl] ----
RECURSIVE OffsOf(_, _)
OffsOf(syms, w) == IF w = <<>> THEN <<0>>
                   ELSE LET r == OffsOf(syms, Front(w)) IN Append(r, r[Len(r)] + syms[w[Len(w)]].n)
MkInput(syms, w) == [w |-> w, off |-> OffsOf(syms, w), nl |-> [j \in DOMAIN w |-> syms[w[j]].nl]]

\* the k-th word (k >= 0) of length len over 1..na, little-endian digits
RECURSIVE WordOf(_, _, _)
WordOf(na, len, k) == IF len = 0 THEN <<>> ELSE <<(k % na) + 1>> \o WordOf(na, len - 1, k \div na)
RECURSIVE Pow(_, _)
Pow(b, e) == IF e = 0 THEN 1 ELSE b * Pow(b, e - 1)
WordsOfLen(na, len) == [k \in 1..Pow(na, len) |-> WordOf(na, len, k - 1)]
RECURSIVE WordsUpTo(_, _)
WordsUpTo(na, n) == IF n = 0 THEN << <<>> >> ELSE WordsUpTo(na, n - 1) \o WordsOfLen(na, n)
AllInputs(syms, n) == LET ws == WordsUpTo(Len(syms), n) IN [k \in DOMAIN ws |-> MkInput(syms, ws[k])]

\* ---- regex universes ----
\* leaves over atoms 1, 2: {1}, {2}, {1,2} and the empty regex
Leaves12 == << Cls(<<1>>), Cls(<<2>>), Cls(<<1, 2>>), Eps >>

NUnary == 6
Unary(j, x) == CASE j = 1 -> Star(x) [] j = 2 -> Plus(x) [] j = 3 -> Opt(x)
                 [] j = 4 -> Rep(x, 0, 2) [] j = 5 -> Rep(x, 2, 2) [] j = 6 -> Rep(x, 1, -1)
Binary(j, x, y) == IF j = 1 THEN Cat(x, y) ELSE Alt(x, y)

\* one more level of operators on top of the regexes in L (L itself included)
Grow(L) ==
  LET n == Len(L) IN
  L \o [k \in 1..(n * NUnary) |-> Unary(((k - 1) % NUnary) + 1, L[((k - 1) \div NUnary) + 1])]
    \o [k \in 1..(n * n * 2) |-> Binary(((k - 1) % 2) + 1,
                                        L[(((k - 1) \div 2) % n) + 1],
                                        L[((k - 1) \div (2 * n)) + 1])]

R1 == TLCEval(Grow(Leaves12))         \* depth <= 1:  4 + 24 + 32 = 60
R2 == TLCEval(Grow(R1))               \* depth <= 2:  60 + 360 + 7200 = 7620

\* a core of keyword / identifier / nullable shapes for triples
Core12 == << Cls(<<1>>), Cls(<<2>>), Cls(<<1, 2>>),
             Cat(Cls(<<1>>), Cls(<<2>>)), Cat(Cls(<<1>>), Cls(<<1>>)),
             Plus(Cls(<<1>>)), Plus(Cls(<<1, 2>>)), Star(Cls(<<2>>)),
             Cat(Cls(<<1>>), Star(Cls(<<1, 2>>))), Alt(Eps, Cls(<<1>>)),
             Cat(Alt(Eps, Cls(<<1>>)), Cls(<<2>>)), Opt(Cat(Cls(<<2>>), Cls(<<1>>))) >>

NoLa == [kind |-> "none"]
PosLa(r) == [kind |-> "pos", re |-> r]
NegLa(r) == [kind |-> "neg", re |-> r]
Pat(r, t) == [re |-> r, tt |-> t, la |-> NoLa]
PatLa(r, t, la) == [re |-> r, tt |-> t, la |-> la]
Mode(nm, ps, tr) == [name |-> nm, pats |-> ps, trans |-> tr]
OneMode(ps) == [modes |-> << Mode("M0", ps, <<>>) >>]

\* token types: deliberately not in priority order and not dense
PairsOf(R) == LET n == Len(R) IN
  [k \in 1..(n * n) |-> OneMode(<< Pat(R[((k - 1) \div n) + 1], 7), Pat(R[((k - 1) % n) + 1], 3) >>)]
SinglesOf(R) == [k \in DOMAIN R |-> OneMode(<< Pat(R[k], 5) >>)]
TriplesOf(R) == LET n == Len(R) IN
  [k \in 1..(n * n * n) |-> OneMode(<< Pat(R[((k - 1) \div (n * n)) + 1], 4),
                                      Pat(R[(((k - 1) \div n) % n) + 1], 9),
                                      Pat(R[((k - 1) % n) + 1], 0) >>)]

\* add_patterns(): the token type is the pattern's index (harness builds through
\* ScannerBuilder::add_patterns when cfg.simple = TRUE)
SimplePairsOf(R) == LET n == Len(R) IN
  [k \in 1..(n * n) |-> [modes |-> << Mode("INITIAL", << Pat(R[((k - 1) \div n) + 1], 0),
                                                       Pat(R[((k - 1) % n) + 1], 1) >>, <<>>) >>,
                         simple |-> TRUE]]

U_C01_pairs   == TLCEval(PairsOf(R1))
U_C01_singles == TLCEval(SinglesOf(R2))
U_C01_triples == TLCEval(TriplesOf(Core12))
U_C01_simple  == TLCEval(SimplePairsOf(R1))
Syms_C01 == << SymA, SymE2, SymS4 >>      \* atom 3 is in no leaf: never matched
=============================================================================
