----------------------------- MODULE Universe -----------------------------
(***************************************************************************)
(* The small worlds TLC enumerates (DESIGN 5): regex universes, pattern    *)
(* sets, mode graphs, symbol tables and inputs.  Everything is a SEQUENCE  *)
(* built by index arithmetic so that a configuration is referred to by its *)
(* index (cheap states, deterministic sharding).                           *)
(***************************************************************************)
EXTENDS RegexSem, SequencesExt

\* ---- symbol tables: atom k is concretised by the harness as Syms[k].ch ----
\* ch is an ASCII character or "U+XXXX"; n = UTF-8 width; nl = is it the line feed
SymA   == [ch |-> "a",       n |-> 1, nl |-> FALSE]
SymB   == [ch |-> "b",       n |-> 1, nl |-> FALSE]
SymC   == [ch |-> "c",       n |-> 1, nl |-> FALSE]
SymX   == [ch |-> "x",       n |-> 1, nl |-> FALSE]
SymE2  == [ch |-> "U+00E9",  n |-> 2, nl |-> FALSE]   \* e acute
SymE3  == [ch |-> "U+20AC",  n |-> 3, nl |-> FALSE]   \* euro sign
SymS4  == [ch |-> "U+1F600", n |-> 4, nl |-> FALSE]   \* grinning face
SymNL  == [ch |-> "U+000A",  n |-> 1, nl |-> TRUE]

\* ---- inputs: all words over atoms 1..na up to length n, as [w, off, nl] ----
RECURSIVE OffsOf(_, _)
OffsOf(syms, w) == IF w = <<>> THEN <<0>>
                   ELSE LET r == OffsOf(syms, Front(w)) IN Append(r, r[Len(r)] + syms[w[Len(w)]].n)
MkInput(syms, w) == [w |-> w, off |-> OffsOf(syms, w), nl |-> [j \in DOMAIN w |-> syms[w[j]].nl]]

\* the k-th word (k >= 0) of length len over 1..na, little-endian digits
RECURSIVE WordOf(_, _, _)
WordOf(na, len, k) == IF len = 0 THEN <<>> ELSE <<(k % na) + 1>> \o WordOf(na, len - 1, k \div na)
RECURSIVE Pow(_, _)
Pow(b, e) == IF e = 0 THEN 1 ELSE b * Pow(b, e - 1)
WordsOfLen(na, len) == [k \in 1..Pow(na, len) |-> WordOf(na, len, k - 1)]
RECURSIVE WordsUpTo(_, _)
WordsUpTo(na, n) == IF n = 0 THEN << <<>> >> ELSE WordsUpTo(na, n - 1) \o WordsOfLen(na, n)
AllInputs(syms, n) == LET ws == WordsUpTo(Len(syms), n) IN [k \in DOMAIN ws |-> MkInput(syms, ws[k])]

\* ---- regex universes ----
\* leaves over atoms 1, 2: {1}, {2}, {1,2} and the empty regex
Leaves12 == << Cls(<<1>>), Cls(<<2>>), Cls(<<1, 2>>), Eps >>

NUnary == 6
Unary(j, x) == CASE j = 1 -> Star(x) [] j = 2 -> Plus(x) [] j = 3 -> Opt(x)
                 [] j = 4 -> Rep(x, 0, 2) [] j = 5 -> Rep(x, 2, 2) [] j = 6 -> Rep(x, 1, -1)
Binary(j, x, y) == IF j = 1 THEN Cat(x, y) ELSE Alt(x, y)

\* one more level of operators on top of the regexes in L (L itself included)
Grow(L) ==
  LET n == Len(L) IN
  L \o [k \in 1..(n * NUnary) |-> Unary(((k - 1) % NUnary) + 1, L[((k - 1) \div NUnary) + 1])]
    \o [k \in 1..(n * n * 2) |-> Binary(((k - 1) % 2) + 1,
                                        L[(((k - 1) \div 2) % n) + 1],
                                        L[((k - 1) \div (2 * n)) + 1])]

R1 == TLCEval(Grow(Leaves12))         \* depth <= 1:  4 + 24 + 32 = 60
R2 == TLCEval(Grow(R1))               \* depth <= 2:  60 + 360 + 7200 = 7620

\* a core of keyword / identifier / nullable shapes for triples
Core12 == << Cls(<<1>>), Cls(<<2>>), Cls(<<1, 2>>),
             Cat(Cls(<<1>>), Cls(<<2>>)), Cat(Cls(<<1>>), Cls(<<1>>)),
             Plus(Cls(<<1>>)), Plus(Cls(<<1, 2>>)), Star(Cls(<<2>>)),
             Cat(Cls(<<1>>), Star(Cls(<<1, 2>>))), Alt(Eps, Cls(<<1>>)),
             Cat(Alt(Eps, Cls(<<1>>)), Cls(<<2>>)), Opt(Cat(Cls(<<2>>), Cls(<<1>>))) >>

NoLa == [kind |-> "none"]
PosLa(r) == [kind |-> "pos", re |-> r]
NegLa(r) == [kind |-> "neg", re |-> r]
Pat(r, t) == [re |-> r, tt |-> t, la |-> NoLa]
PatLa(r, t, la) == [re |-> r, tt |-> t, la |-> la]
Mode(nm, ps, tr) == [name |-> nm, pats |-> ps, trans |-> tr]
OneMode(ps) == [modes |-> << Mode("M0", ps, <<>>) >>]

\* token types: deliberately not in priority order and not dense
PairsOf(R) == LET n == Len(R) IN
  [k \in 1..(n * n) |-> OneMode(<< Pat(R[((k - 1) \div n) + 1], 7), Pat(R[((k - 1) % n) + 1], 3) >>)]
SinglesOf(R) == [k \in DOMAIN R |-> OneMode(<< Pat(R[k], 5) >>)]
TriplesOf(R) == LET n == Len(R) IN
  [k \in 1..(n * n * n) |-> OneMode(<< Pat(R[((k - 1) \div (n * n)) + 1], 4),
                                      Pat(R[(((k - 1) \div n) % n) + 1], 9),
                                      Pat(R[((k - 1) % n) + 1], 0) >>)]

\* add_patterns(): the token type is the pattern's index (harness builds through
\* ScannerBuilder::add_patterns when cfg.simple = TRUE)
SimplePairsOf(R) == LET n == Len(R) IN
  [k \in 1..(n * n) |-> [modes |-> << Mode("INITIAL", << Pat(R[((k - 1) \div n) + 1], 0),
                                                       Pat(R[((k - 1) % n) + 1], 1) >>, <<>>) >>,
                         simple |-> TRUE]]

\* add_patterns() with a pattern string listed twice: the patterns behind it keep their indices
SimpleTriplesOf(R) == LET n == Len(R) IN
  [k \in 1..(n * n) |-> [modes |-> << Mode("INITIAL", << Pat(R[((k - 1) \div n) + 1], 0),
                                                       Pat(R[((k - 1) \div n) + 1], 1),
                                                       Pat(R[((k - 1) % n) + 1], 2) >>, <<>>) >>,
                         simple |-> TRUE]]
  \o [k \in 1..(n * n) |-> [modes |-> << Mode("INITIAL", << Pat(R[((k - 1) \div n) + 1], 0),
                                                          Pat(R[((k - 1) % n) + 1], 1),
                                                          Pat(R[((k - 1) \div n) + 1], 2),
                                                          Pat(R[((k * 7) % n) + 1], 3) >>, <<>>) >>,
                            simple |-> TRUE]]

\* four patterns from the core (thorough tier)
QuadsOf(R) == LET n == Len(R) IN
  [k \in 1..(n * n * n * n) |-> OneMode(<< Pat(R[((k - 1) \div (n * n * n)) + 1], 4),
                                          Pat(R[(((k - 1) \div (n * n)) % n) + 1], 9),
                                          Pat(R[(((k - 1) \div n) % n) + 1], 0),
                                          Pat(R[((k - 1) % n) + 1], 6) >>)]
\* depth 3: one more unary operator on top of every regex of depth <= 2 (thorough tier)
Unary3 == [k \in 1..(Len(R2) * NUnary) |-> Unary(((k - 1) % NUnary) + 1, R2[((k - 1) \div NUnary) + 1])]
U_C01_quads   == TLCEval(QuadsOf(Core12))
U_C01_depth3  == TLCEval(SinglesOf(Unary3))
U_C01_pairs   == TLCEval(PairsOf(R1))
U_C01_singles == TLCEval(SinglesOf(R2))
U_C01_triples == TLCEval(TriplesOf(Core12))
U_C01_simple  == TLCEval(SimplePairsOf(R1))
U_C01_simple3 == TLCEval(SimpleTriplesOf(Core12))
Syms_C01 == << SymA, SymE2, SymS4 >>      \* atom 3 is in no leaf: never matched
\* ---- C04 / C05: lookaheads --------------------------------------------------------------
\* atoms: 1 = a (1 byte), 2 = U+00E9 (2 bytes, "b"), 3 = U+1F600 (4 bytes, "c")
Syms_C04 == << SymA, SymE2, SymS4 >>
A1 == Cls(<<1>>)
A2 == Cls(<<2>>)
A3 == Cls(<<3>>)
A12 == Cls(<<1, 2>>)
PatPool == << A1, A2, Cat(A1, A2), Plus(A1), Plus(A12), Cat(Star(A1), A2), Cat(A1, A3), A3,
              Cat(Cat(A1, A2), A3), Alt(A1, Cat(A1, A2)), A12, Alt(Cat(A1, A12), A12) >>
\* lookahead patterns that cannot match the empty string
LaPool == << A3, Cat(A1, A2), A12, Plus(A1), Alt(A1, Cat(A2, A3)) >>
NLa == 2 * Len(LaPool) + 1
LaOpt(j) == IF j = 1 THEN NoLa
            ELSE IF j <= Len(LaPool) + 1 THEN PosLa(LaPool[j - 1])
            ELSE NegLa(LaPool[j - 1 - Len(LaPool)])
\* decorated patterns: pattern x lookahead option (token type filled in later)
NDeco == Len(PatPool) * NLa
DecoRe(k) == PatPool[((k - 1) \div NLa) + 1]
DecoLa(k) == LaOpt(((k - 1) % NLa) + 1)
U_C04_singles == [k \in 1..NDeco |-> OneMode(<< PatLa(DecoRe(k), 5, DecoLa(k)) >>)]
U_C04_pairs == [k \in 1..(NDeco * NDeco) |->
                  OneMode(<< PatLa(DecoRe(((k - 1) \div NDeco) + 1), 7, DecoLa(((k - 1) \div NDeco) + 1)),
                             PatLa(DecoRe(((k - 1) % NDeco) + 1), 3, DecoLa(((k - 1) % NDeco) + 1)) >>)]
\* pairs in which at least one pattern has a lookahead (C05)
HasLa(cfg) == \E p \in DOMAIN cfg.modes[1].pats : cfg.modes[1].pats[p].la.kind # "none"
U_C04 == TLCEval(U_C04_singles \o U_C04_pairs)
U_C05 == TLCEval(SelectSeq(U_C04_pairs, HasLa))

\* ---- C06 / C11 / C12: mode graphs ---------------------------------------------------------
\* atoms: 1 = a, 2 = b, 3 = c, 4 = x (matched by nothing)
Syms_C06 == << SymA, SymB, SymC, SymX >>
\* mode m has its own single-character (or two-character) patterns so that the mode in force shows
\* in the tokens; token types 1..3 are shared between the modes
ModePats(m) ==
  CASE m = 0 -> << Pat(A1, 1), Pat(A2, 2), Pat(A3, 3) >>
    [] m = 1 -> << Pat(A1, 2), Pat(Cat(A1, A2), 3), Pat(A2, 1) >>
    [] m = 2 -> << Pat(A3, 1), Pat(A2, 2), Pat(Plus(A1), 3) >>
\* the k-th transition list (k >= 0) for nm modes: digit j of k in base nm+1 is 0 for "no
\* transition on type j" and t+1 for "type j -> mode t"; lists are sorted by token type
TransOf(nm, k) ==
  LET d(j) == (k \div Pow(nm + 1, j - 1)) % (nm + 1)
      all == << <<1, d(1) - 1>>, <<2, d(2) - 1>>, <<3, d(3) - 1>> >>
  IN  SelectSeq(all, LAMBDA t : t[2] >= 0)
NTrans(nm) == Pow(nm + 1, 3)
ModeName(m) == CASE m = 0 -> "INITIAL" [] m = 1 -> "M one" [] m = 2 -> "M2"
Graph2(k) == [modes |-> << Mode(ModeName(0), ModePats(0), TransOf(2, k % NTrans(2))),
                           Mode(ModeName(1), ModePats(1), TransOf(2, k \div NTrans(2))) >>]
Graph3(k) == [modes |-> << Mode(ModeName(0), ModePats(0), TransOf(3, k % NTrans(3))),
                           Mode(ModeName(1), ModePats(1), TransOf(3, (k \div NTrans(3)) % NTrans(3))),
                           Mode(ModeName(2), ModePats(2), TransOf(3, k \div (NTrans(3) * NTrans(3)))) >>]
Graph1(k) == [modes |-> << Mode(ModeName(0), ModePats(0), TransOf(1, k)) >>]
U_C06_1 == [k \in 1..NTrans(1) |-> Graph1(k - 1)]
U_C06_2 == [k \in 1..(NTrans(2) * NTrans(2)) |-> Graph2(k - 1)]
\* three modes: every 61st graph (a stride coprime to the digit structure)
U_C06_3 == [k \in 1..((NTrans(3) * NTrans(3) * NTrans(3)) \div 61) |-> Graph3((k - 1) * 61)]
U_C06 == TLCEval(U_C06_1 \o U_C06_2 \o U_C06_3)

\* ---- C09: line and column ----------------------------------------------------------------
\* atoms: 1 = x (1 byte), 2 = U+040A (2 bytes; its low byte is the line feed's), 3 = newline,
\* 4 = a (never matched)
SymLowLF == [ch |-> "U+040A", n |-> 2, nl |-> FALSE]
Syms_C09 == << SymX, SymLowLF, SymNL, SymA >>
\* the last two patterns span line breaks and overlap, so that after a reset into the middle of a
\* token another token can straddle scanned and not yet scanned lines
C09Pats == << Pat(Plus(A1), 1), Pat(A2, 2), Pat(A3, 0), Pat(Cat(A1, A3), 4), Pat(Plus(A3), 6),
              Pat(Cat(A3, A1), 8), Pat(Cat(A1, Cat(A3, A1)), 9) >>
\* all non-empty subsets of the five patterns, in the listed order
SubSeqOf(S, k) == SelectSeq([j \in DOMAIN S |-> <<j, S[j]>>], LAMBDA e : (k \div Pow(2, e[1] - 1)) % 2 = 1)
U_C09 == TLCEval([k \in 1..(Pow(2, Len(C09Pats)) - 1) |->
                    OneMode([j \in DOMAIN SubSeqOf(C09Pats, k) |-> SubSeqOf(C09Pats, k)[j][2]])])

\* ---- C10: a core of configurations with lookaheads and modes -----------------------------
U_C10 == TLCEval(
  << OneMode(<< Pat(Plus(A1), 1), Pat(A2, 2) >>),
     OneMode(<< Pat(Cat(A1, A2), 1), Pat(A1, 2), Pat(Plus(A12), 3) >>),
     OneMode(<< PatLa(A1, 1, PosLa(A2)), Pat(A2, 2), Pat(A3, 3) >>),
     OneMode(<< PatLa(Plus(A1), 1, NegLa(A2)), Pat(A12, 2) >>),
     OneMode(<< PatLa(Cat(A1, A2), 4, PosLa(A3)), Pat(A1, 9), PatLa(A2, 0, NegLa(Plus(A1))) >>),
     OneMode(<< Pat(Alt(Eps, A1), 1), Pat(Star(A2), 2) >>),
     Graph2(5 + 27 * 11), Graph2(14 + 27 * 3), Graph2(26 + 27 * 26), Graph3(7 * 61 + 3), Graph3(1234 * 61),
     [modes |-> << Mode("A", << PatLa(A1, 1, PosLa(A2)), Pat(A2, 2), Pat(A3, 3) >>, << <<2, 1>> >>),
                   Mode("B", << Pat(Plus(A1), 5), PatLa(A2, 2, NegLa(A3)), Pat(A3, 3) >>, << <<3, 0>> >>) >>]
  >>)
\* ---- C13: a base configuration, its one-field neighbours, and configurations that do not build ----
Unsup(w) == [op |-> "unsup", what |-> w]
SynErr == [op |-> "synerr"]
C13ModeA(ps, tr, nm) == Mode(nm, ps, tr)
C13BasePatsA == << Pat(A1, 1), Pat(Cat(A1, A2), 2), Pat(A2, 3), Pat(A12, 4) >>
C13BasePatsB == << Pat(Plus(A1), 5), PatLa(A2, 3, NegLa(A3)), Pat(A3, 6) >>
C13Cfg(pa, ta, na, pb, tb) == [modes |-> << Mode(na, pa, ta), Mode("B", pb, tb) >>]
C13Base == C13Cfg(C13BasePatsA, << <<3, 1>> >>, "A", C13BasePatsB, << <<3, 0>> >>)
U_C13 == TLCEval(<<
  C13Base,
  \* a mode without patterns in the middle (modes behind it are referred to by index)
  [modes |-> << Mode("A", C13BasePatsA, << <<3, 2>> >>), Mode("E", <<>>, <<>>), Mode("B", C13BasePatsB, << <<3, 0>> >>) >>],
  \* the same regex listed twice in a mode, the first copy with a lookahead (the second is its fallback)
  C13Cfg(<< PatLa(A1, 1, PosLa(A2)), Pat(A1, 8), Pat(Cat(A1, A2), 2), Pat(A2, 3) >>, << <<3, 1>> >>, "A", C13BasePatsB, << <<3, 0>> >>),
  \* a token type changed
  C13Cfg(<< Pat(A1, 8), Pat(Cat(A1, A2), 2), Pat(A2, 3), Pat(A12, 4) >>, << <<3, 1>> >>, "A", C13BasePatsB, << <<3, 0>> >>),
  \* two patterns swapped (priority)
  C13Cfg(<< Pat(A12, 4), Pat(A1, 1), Pat(Cat(A1, A2), 2), Pat(A2, 3) >>, << <<3, 1>> >>, "A", C13BasePatsB, << <<3, 0>> >>),
  C13Cfg(<< Pat(A1, 1), Pat(A2, 3), Pat(Cat(A1, A2), 2), Pat(A12, 4) >>, << <<3, 1>> >>, "A", C13BasePatsB, << <<3, 0>> >>),
  C13Cfg(C13BasePatsA, << <<3, 1>> >>, "A", << PatLa(A2, 3, NegLa(A3)), Pat(Plus(A1), 5), Pat(A3, 6) >>, << <<3, 0>> >>),
  \* a lookahead added
  C13Cfg(<< PatLa(A1, 1, PosLa(A2)), Pat(Cat(A1, A2), 2), Pat(A2, 3), Pat(A12, 4) >>, << <<3, 1>> >>, "A", C13BasePatsB, << <<3, 0>> >>),
  \* its polarity flipped
  C13Cfg(<< PatLa(A1, 1, NegLa(A2)), Pat(Cat(A1, A2), 2), Pat(A2, 3), Pat(A12, 4) >>, << <<3, 1>> >>, "A", C13BasePatsB, << <<3, 0>> >>),
  \* a lookahead removed / its text changed / polarity flipped (mode B)
  C13Cfg(C13BasePatsA, << <<3, 1>> >>, "A", << Pat(Plus(A1), 5), Pat(A2, 3), Pat(A3, 6) >>, << <<3, 0>> >>),
  C13Cfg(C13BasePatsA, << <<3, 1>> >>, "A", << Pat(Plus(A1), 5), PatLa(A2, 3, NegLa(A1)), Pat(A3, 6) >>, << <<3, 0>> >>),
  C13Cfg(C13BasePatsA, << <<3, 1>> >>, "A", << Pat(Plus(A1), 5), PatLa(A2, 3, PosLa(A3)), Pat(A3, 6) >>, << <<3, 0>> >>),
  \* a transition added / retargeted / removed
  C13Cfg(C13BasePatsA, << <<1, 1>>, <<3, 1>> >>, "A", C13BasePatsB, << <<3, 0>> >>),
  C13Cfg(C13BasePatsA, << <<3, 0>> >>, "A", C13BasePatsB, << <<3, 0>> >>),
  C13Cfg(C13BasePatsA, << <<3, 1>> >>, "A", C13BasePatsB, <<>>),
  \* a mode renamed
  C13Cfg(C13BasePatsA, << <<3, 1>> >>, "A2", C13BasePatsB, << <<3, 0>> >>),
  \* a pattern spelled differently with the same language
  C13Cfg(<< Pat(Alt(A1, A1), 1), Pat(Cat(A1, A2), 2), Pat(A2, 3), Pat(A12, 4) >>, << <<3, 1>> >>, "A", C13BasePatsB, << <<3, 0>> >>),
  \* does not build: a syntax error; an unsupported construct in the SECOND mode (the first
  \* mode has been compiled when the error is found) and in a lookahead
  \* two modes with the same patterns and different transitions (a compilation shared between
  \* modes must not share the transitions)
  [modes |-> << Mode("A", C13BasePatsA, << <<3, 1>> >>), Mode("B", C13BasePatsA, << <<1, 0>>, <<4, 1>> >>) >>],
  [modes |-> << Mode("A", C13BasePatsA, << <<3, 1>> >>), Mode("B", C13BasePatsA, << <<3, 2>> >>), Mode("C", C13BasePatsB, << <<3, 0>> >>) >>],
  \* unrelated configurations with fewer and with more modes
  OneMode(<< Pat(A12, 4), Pat(A1, 1) >>),
  OneMode(C13BasePatsA),
  [modes |-> << Mode("A", C13BasePatsA, << <<3, 2>> >>), Mode("B", C13BasePatsB, << <<3, 0>> >>), Mode("C", << Pat(A2, 3), Pat(A1, 9) >>, << <<3, 1>> >>) >>],
  C13Cfg(<< Pat(A1, 1), Pat(SynErr, 2), Pat(A2, 3) >>, << <<3, 1>> >>, "A", C13BasePatsB, << <<3, 0>> >>),
  C13Cfg(C13BasePatsA, << <<3, 1>> >>, "A", << Pat(Plus(A1), 5), Pat(Unsup("a*?"), 3), Pat(A3, 6) >>, << <<3, 0>> >>),
  C13Cfg(C13BasePatsA, << <<3, 1>> >>, "A", << Pat(Plus(A1), 5), PatLa(A2, 3, NegLa(Unsup("\\bx"))), Pat(A3, 6) >>, << <<3, 0>> >>)
>>)

\* ---- C15: one unsupported construct planted at every node position ------------------------
RECURSIVE Size(_), SumSizes(_, _), PlantAt(_, _, _), PlantInSeq(_, _, _, _)
SumSizes(xs, j) == IF j > Len(xs) THEN 0 ELSE Size(xs[j]) + SumSizes(xs, j + 1)
Size(re) == CASE re.op \in {"cat", "alt"} -> 1 + SumSizes(re.xs, 1)
              [] re.op \in {"star", "plus", "opt", "rep"} -> 1 + Size(re.l)
              [] OTHER -> 1
\* replace the k-th node (pre-order, 1-based) of re by u
PlantAt(re, k, u) ==
  IF k = 1 THEN u
  ELSE CASE re.op \in {"cat", "alt"} -> [re EXCEPT !.xs = PlantInSeq(re.xs, 1, k - 1, u)]
         [] OTHER -> [re EXCEPT !.l = PlantAt(re.l, k - 1, u)]
PlantInSeq(xs, j, k, u) ==
  IF k <= Size(xs[j]) THEN [xs EXCEPT ![j] = PlantAt(xs[j], k, u)]
  ELSE PlantInSeq(xs, j + 1, k - Size(xs[j]), u)

\* constructs the documentation lists as unsupported, in concrete syntax
UnsupPool == << "^", "$", "\\A", "\\z", "\\b", "\\B", "(?i)", "(?i:a)", "(?s-m:a)", "a*?", "a+?", "a??", "a{1,2}?",
                "\\p{Greek}", "\\p{sc=Greek}", "\\pX", "\\P{Cyrillic}", "[\\p{Greek}]", "[a\\pX]", "[^\\p{sc=Latin}b]",
                "[a&&\\p{Greek}]", "(?m)", "\\p{L}", "\\P{N}", "\\p{Z}", "\\p{lowercase}", "\\p{Lu}",
                "(?-i:a)", "(?-u:a)", "(?-s:a)", "(?-i)", "(?x:a)", "(?U:a)", "(?i-s:a)", "(?-m-s:a)" >>
\* host regexes built only from supported constructs (depth <= 3)
Hosts == << A1, Cat(A1, A2), Alt(A1, A2), Star(A12), Plus(Cat(A1, A2)), Opt(Alt(A1, Eps)), Rep(A1, 1, 2),
            Cat(Star(A1), Alt(A2, Cat(A1, A3))), Alt(Cat(A1, A2), Plus(A3)), Rep(Alt(A1, A2), 0, -1),
            Cat(Cat(A1, Opt(A2)), Star(Alt(A3, A1))), Alt(Eps, Cat(A1, Rep(A2, 2, 2))),
            Cat(A1, Rep(A2, 0, 0)), Rep(Alt(A1, Cat(A2, A3)), 0, 2), Cat(Rep(Cat(A1, A2), 0, 0), A3) >>
\* (host, position, construct) triples, flattened
HostOff == [h \in 1..(Len(Hosts) + 1) |-> SumSizes(Hosts, 1) - SumSizes(Hosts, h)]   \* nodes before host h
NPlantPos == SumSizes(Hosts, 1)
HostOfPos(q) == CHOOSE h \in 1..Len(Hosts) : HostOff[h] < q /\ q <= HostOff[h + 1]
Planted(q, u) == LET h == HostOfPos(q) IN PlantAt(Hosts[h], q - HostOff[h], Unsup(UnsupPool[u]))
\* placements: pattern of mode 1, pattern of mode 2, lookahead in mode 1, lookahead in mode 2
\* a companion pattern registers supported classes that an unsupported one could be mistaken for
SrcLeaf(t) == [op |-> "cls", set |-> <<>>, src |-> t]
Companion == Cat(Cat(SrcLeaf("\\pL"), SrcLeaf("\\PN")), Cat(SrcLeaf("\\pZ"), Cat(SrcLeaf("\\p{Lowercase}"), SrcLeaf("[\\p{Uppercase}a]"))))
Place(re, w) ==
  CASE w = 1 -> [modes |-> << Mode("M0", << Pat(Companion, 1), Pat(re, 2) >>, <<>>) >>]
    [] w = 2 -> [modes |-> << Mode("M0", << Pat(A1, 1) >>, << <<1, 1>> >>), Mode("M1", << Pat(re, 2), Pat(A2, 3) >>, <<>>) >>]
    [] w = 3 -> [modes |-> << Mode("M0", << PatLa(A1, 1, PosLa(re)), Pat(A2, 2) >>, <<>>) >>]
    [] w = 4 -> [modes |-> << Mode("M0", << Pat(A1, 1) >>, <<>>), Mode("M1", << PatLa(A2, 3, NegLa(re)) >>, <<>>) >>]
    \* the lookahead of a pattern that reports the same token type as an earlier pattern with a lookahead
    \* (only the verdict of the build is at stake here, see DESIGN 0.35 for scanning such modes)
    [] w = 5 -> [modes |-> << Mode("M0", << PatLa(A1, 1, PosLa(A2)), PatLa(A2, 1, NegLa(re)), Pat(A3, 2) >>, <<>>) >>]
NU == Len(UnsupPool)
NPlace == 5
U_C15_planted == [k \in 1..(NPlantPos * NU * NPlace) |->
                    Place(Planted(((k - 1) \div (NU * NPlace)) + 1, (((k - 1) \div NPlace) % NU) + 1), ((k - 1) % NPlace) + 1)]
U_C15_clean == [k \in 1..(Len(Hosts) * NPlace) |-> Place(Hosts[((k - 1) \div NPlace) + 1], ((k - 1) % NPlace) + 1)]
U_C15 == TLCEval(U_C15_clean \o U_C15_planted)

\* ---- Pipeline: a keyword list with more token types than 2 bits of group id can tell apart ----
U_PipeW == << OneMode(<< Pat(Cat(A1, A1), 1), Pat(Cat(A1, A2), 2), Pat(Cat(A2, A1), 3), Pat(Cat(A2, A2), 4),
                         Pat(A1, 5), Pat(A2, 6), Pat(Cat(A1, Cat(A1, A1)), 7) >>) >>

=============================================================================
