----------------------------- MODULE Gen_Hist -----------------------------
(***************************************************************************)
(* Behaviour generator (binding direction 1, spec -> code).                *)
(*                                                                         *)
(* TLC enumerates ALL behaviours of ScannerApi inside the bounds given by  *)
(* the constants: every configuration Cfgs[CfgLo..CfgHi], every input of   *)
(* GenInputs, every call history over the enabled operations Ops up to     *)
(* MaxDepth calls (on up to NIters iterators), every admissible result.    *)
(* When a behaviour is complete it is printed as one JSON line             *)
(*     <<"REPLAY", "{...}">>                                               *)
(* holding the calls with the results the specification prescribes; the    *)
(* harness replays the calls through the real public API and compares.     *)
(* The history is part of the state on purpose: every PATH is a behaviour. *)
(***************************************************************************)
EXTENDS ScannerApi, Json, IOUtils

(* World defines:
  Syms         symbol table of the world (atom -> [ch, n, nl])
  Ops          subset of {"next","nextpos","peek","setmode","scsetmode","setoffset",
               "advance","position","newiter"}
  MaxDepth     number of calls per behaviour (after the initial find_iter)
  Drain        TRUE: a behaviour ends at the first next() = None
  CfgLo, CfgHi shard of the configuration table
  StartOffs    "zero": find_iter(input); "all": with_offset(o) for every boundary and len+2
  PeekNs       the n of peek_n(n)
  NIters       maximal number of iterators
  BackOnly     TRUE: set_offset only to offsets already scanned (C09)
  SecondInputs indices of inputs a later find_iter may use besides the first input
  SampleMod, SampleSeed   keep (cfg, input) pairs with (31*cfg + 17*input + seed) % mod = 0
  AllPos       TRUE: every iterator call is followed by position(o) for all scanned offsets
  Twin         TRUE: two scanners built from the same configuration through the cache (C12:
               "scanners sharing one cached compilation"); later iterators come from either *)
VARIABLES hist, done

vars == <<scanners, iters, cache, hist, done>>

ASSUME /\ CfgLo >= 1 /\ CfgHi <= Len(Cfgs)
       /\ IOEnv.VERIF_TABLES = "" \/
            JsonSerialize(IOEnv.VERIF_TABLES, [cfgs |-> [c \in CfgLo..CfgHi |-> Cfgs[c]], lo |-> CfgLo, syms |-> Syms])

Boundaries(k) == { Off(k, i) : i \in 1..(LenW(k) + 1) }
\* 1000000..1000002: the harness concretises an offset >= 1000000 as usize::MAX (clamped like any
\* offset beyond the input; three values so that every public path of the harness' rotation is taken)
Huge == {1000000, 1000001, 1000002}
StartSet(k) == IF StartOffs = "zero" THEN {0} ELSE Boundaries(k) \cup {ByteLen(k) + 2, 1000000}

\* the initial states only choose the configuration; the first step chooses input and start
\* offset (so that TLC's workers share the enumeration)
GInit ==
  \E ci \in CfgLo..CfgHi :
    /\ scanners = IF Twin THEN << [cfg |-> ci, mode |-> 0], [cfg |-> ci, mode |-> 0] >> ELSE << [cfg |-> ci, mode |-> 0] >>
    /\ cache = IF Twin THEN {ci} ELSE {}
    /\ iters = <<>>
    /\ hist = IF Twin THEN << [op |-> "build", cfg |-> ci, cached |-> TRUE], [op |-> "build", cfg |-> ci, cached |-> TRUE] >>
                      ELSE << [op |-> "build", cfg |-> ci] >>
    /\ done = FALSE

StepStart ==
  LET ci == scanners[1].cfg IN
  \E k \in DOMAIN Inputs :
    /\ (31 * ci + 17 * k + SampleSeed) % SampleMod = 0
    /\ \E o \in StartSet(k) :
         /\ NewIter(1, k, o)
         /\ hist' = Append(hist, [op |-> "newiter", sc |-> 1, w |-> W(k), off |-> o])
         /\ done' = FALSE

\* With AllPos every call record on an iterator also carries, for every boundary already scanned
\* AFTER the call, the admissible positions (C09: position(o) for any scanned offset); the
\* harness queries position(o) for each of them.
ScannedPos(h) ==
  LET it == iters'[h]
      k  == it.inp IN
  IF AllPos /\ it.posok
    THEN SetToSeq({ <<o, SetToSeq(PosAdm(k, o))>> : o \in { o \in Boundaries(k) : IdxOf(k, o) <= it.hw } })
    ELSE <<>>
Log(e) == hist' = Append(hist, IF "it" \in DOMAIN e THEN e @@ [allpos |-> ScannedPos(e.it)] ELSE e)
\* a call record always carries the iterator's mode after the call (current_mode(), C06)
ModeAfter(h) == iters'[h].mode

StepNext(h) ==
  \E o \in NextOutcomes(iters[h]) :
    /\ DoNext(h, o.tok)
    /\ Log([op |-> "next", it |-> h, res |-> o.tok, mode |-> o.mode,
            nb |-> Cardinality(NextOutcomes(iters[h]))])
    /\ done' = ((Len(hist) - Len(scanners) >= MaxDepth) \/ (Drain /\ o.tok = NoTok))

StepNextPos(h) ==
  \E o \in NextOutcomes(iters[h]) :
    LET k == iters[h].inp
        chk == o.tok # NoTok /\ iters[h].posok IN
    /\ DoNext(h, o.tok)
    /\ Log([op |-> "nextpos", it |-> h, res |-> o.tok, mode |-> o.mode, chk |-> chk,
            sp |-> IF chk THEN TruePos(k, o.tok[2]) ELSE <<>>,
            ep |-> IF chk THEN SetToSeq(PosAdm(k, o.tok[3])) ELSE <<>>,
            nb |-> Cardinality(NextOutcomes(iters[h]))])
    /\ done' = ((Len(hist) - Len(scanners) >= MaxDepth) \/ (Drain /\ o.tok = NoTok))

StepPeek(h) ==
  \E n \in PeekNs :
    \E r \in PeekPaths(iters[h].cfg, iters[h].mode, iters[h].inp, iters[h].cur, n) :
      LET kd == CHOOSE x \in PeekKinds(r, n) : TRUE IN
      /\ DoPeek(h, n, [kind |-> kd, toks |-> r.toks, target |-> IF kd = "S" THEN r.sw ELSE -1])
      /\ Log([op |-> "peek", it |-> h, n |-> n, toks |-> r.toks, kinds |-> SetToSeq(PeekKinds(r, n)),
              sw |-> r.sw, mode |-> iters[h].mode,
              nb |-> Cardinality(PeekPaths(iters[h].cfg, iters[h].mode, iters[h].inp, iters[h].cur, n))])

StepSetMode(h) ==
  \E m \in 0..(NModes(iters[h].cfg) - 1) :
    DoSetMode(h, m) /\ Log([op |-> "setmode", it |-> h, m |-> m, mode |-> m])

StepScSetMode ==
  \E s \in DOMAIN scanners : \E m \in 0..(NModes(scanners[s].cfg) - 1) :
    DoScannerSetMode(s, m) /\ Log([op |-> "scsetmode", sc |-> s, m |-> m])

StepSetOffset(h) ==
  LET k == iters[h].inp
      cand == IF BackOnly THEN { o \in Boundaries(k) : IdxOf(k, o) <= iters[h].hw }
              ELSE Boundaries(k) \cup {ByteLen(k) + 3} \cup Huge IN
  \E o \in cand :
    DoSetOffset(h, o) /\ Log([op |-> "setoffset", it |-> h, o |-> o, mode |-> iters[h].mode])

StepAdvance(h) ==
  \E p \in iters[h].peeked :
    DoAdvanceTo(h, p) /\ Log([op |-> "advance", it |-> h, p |-> p, mode |-> iters[h].mode])

StepPosition(h) ==
  LET k == iters[h].inp IN
  /\ iters[h].posok
  /\ \E o \in { o \in Boundaries(k) : IdxOf(k, o) <= iters[h].hw } :
       /\ UNCHANGED apiVars
       /\ Log([op |-> "position", it |-> h, o |-> o, adm |-> SetToSeq(PosAdm(k, o)), mode |-> iters[h].mode])

StepNewIter ==
  /\ Len(iters) < NIters
  /\ \E s \in DOMAIN scanners : \E k \in {iters[1].inp} \cup SecondInputs :
       /\ NewIter(s, k, 0)
       /\ Log([op |-> "newiter", sc |-> s, w |-> W(k), off |-> 0])

NotNextDone == done' = (Len(hist) - Len(scanners) >= MaxDepth)

GNext ==
  /\ ~done
  /\ IF iters = <<>> THEN StepStart ELSE
     \/ "newiter" \in Ops /\ StepNewIter /\ NotNextDone
     \/ "scsetmode" \in Ops /\ StepScSetMode /\ NotNextDone
     \/ \E h \in DOMAIN iters :
          \/ "next" \in Ops /\ StepNext(h)
          \/ "nextpos" \in Ops /\ StepNextPos(h)
          \/ "peek" \in Ops /\ StepPeek(h) /\ NotNextDone
          \/ "setmode" \in Ops /\ StepSetMode(h) /\ NotNextDone
          \/ "setoffset" \in Ops /\ StepSetOffset(h) /\ NotNextDone
          \/ "advance" \in Ops /\ StepAdvance(h) /\ NotNextDone
          \/ "position" \in Ops /\ StepPosition(h) /\ NotNextDone

GSpec == GInit /\ [][GNext]_vars

\* one line per complete behaviour
Emit == done => PrintT(<<"REPLAY", ToJson([hist |-> hist])>>)

Inv == WellFormed /\ Progress /\ Emit
=============================================================================
