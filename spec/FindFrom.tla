------------------------------ MODULE FindFrom ------------------------------
(***************************************************************************)
(* Layer B: the simulation loop of CompiledDfa::find_from with its          *)
(* candidate bookkeeping, written like the code (one iteration per input    *)
(* character, a single "best candidate so far"), over an automaton for the  *)
(* mode's patterns.  TLC checks that it REFINES the declarative choice      *)
(* Tokenizer!Best (C01, C05):                                               *)
(*     FindFromResult(m, w, i) \in Best(m, w, i)   (none iff Best = {})     *)
(* The automaton is the position automaton of RegexSem (that the code's     *)
(* automaton accepts the same languages is C02); what is modelled here is   *)
(* the loop: state-set stepping, acceptance on entering a state, lookahead  *)
(* gating with its longest match, and the update rule                       *)
(*     take the candidate if its extent is larger, or equal with higher     *)
(*     priority (smaller pattern index).                                    *)
(* FixCandidates = FALSE models the rule before its repair (DESIGN 6, D2):  *)
(* compare the new END with old end + NEW lookahead length, keep the old    *)
(* span when only the type changes.  TLC must then find a counter-example.  *)
(***************************************************************************)
EXTENDS ScannerApi

CONSTANT FixCandidates

\* position automaton of a mode, common numbering over its patterns
RECURSIVE GPm(_, _, _)
GPm(pats, i, base) == IF i > Len(pats) THEN <<>>
                      ELSE LET A == Glu(Expand(pats[i].re), base) IN <<A>> \o GPm(pats, i + 1, A.n)
ModeAuto(m) ==
  LET Gs == GPm(m.pats, 1, 0)
      NP == Len(m.pats)
      lo(i) == IF i = 1 THEN 0 ELSE Gs[i - 1].n
  IN [ first  |-> UNION { Gs[i].first : i \in 1..NP },
       fol    |-> UNION { Gs[i].fol : i \in 1..NP },
       lf     |-> UNION { Gs[i].lf : i \in 1..NP },
       lastOf |-> [i \in 1..NP |-> Gs[i].last] ]

None == [e |-> 0, p |-> 0, ext |-> 0]

\* longest non-empty match of pattern p's lookahead at position e (0 if none)
LaLen(p, w, e) == LET F == LookEnds(p, w, e) IN IF F = {} THEN 0 ELSE MaxOf(F) - e

\* the update for one accepting state entered at this character: candidate (end, pattern index p)
Update(m, w, best, e, p) ==
  LET pt == m.pats[p]
      has == pt.la.kind # "none"
      len == IF has THEN LaLen(pt, w, e) ELSE 0
      sat == CASE pt.la.kind = "none" -> TRUE [] pt.la.kind = "pos" -> len > 0 [] pt.la.kind = "neg" -> len = 0
      lalen == IF pt.la.kind = "pos" THEN len ELSE 0
  IN  IF ~sat THEN best
      ELSE IF FixCandidates
        THEN (IF best.p = 0 \/ e + lalen > best.ext \/ (e + lalen = best.ext /\ p < best.p)
                THEN [e |-> e, p |-> p, ext |-> e + lalen] ELSE best)
        \* the rule before the repair: span and type are updated independently
        ELSE (IF best.p = 0 THEN [e |-> e, p |-> p, ext |-> e + lalen]
              ELSE IF e > best.e + lalen THEN [e |-> e, p |-> p, ext |-> e + lalen]
              ELSE IF e = best.e + lalen THEN (IF p < best.p THEN [best EXCEPT !.p = p] ELSE best)
              ELSE [best EXCEPT !.p = p])

\* fold the accepting patterns of one step in the order the states are visited (pattern order)
RECURSIVE FoldPats(_, _, _, _, _, _)
FoldPats(m, w, best, e, accPats, p) ==
  IF p > Len(m.pats) THEN best
  ELSE FoldPats(m, w, IF p \in accPats THEN Update(m, w, best, e, p) ELSE best, e, accPats, p + 1)

RECURSIVE Sim(_, _, _, _, _, _, _)
Sim(A, m, w, j, S, start, best) ==
  IF j > Len(w) THEN best
  ELSE LET F == IF start THEN A.first ELSE { r[2] : r \in { r \in A.fol : r[1] \in S } }
           T == { q \in F : \E r \in A.lf : r[1] = q /\ InLeaf(r[2], w[j]) }
           acc == { p \in DOMAIN m.pats : T \cap A.lastOf[p] # {} }
           best2 == FoldPats(m, w, best, j + 1, acc, 1)
       IN  IF T = {} THEN best2 ELSE Sim(A, m, w, j + 1, T, FALSE, best2)

FindFromResult(m, w, i) == Sim(ModeAuto(m), m, w, i, {}, TRUE, None)

\* ---- the refinement check: every configuration of the World, every input, every position ----
VARIABLES fci, fk
\* (the input is chosen by the first step so that TLC's workers share the enumeration)
FInit == Init /\ fci \in CfgLo..CfgHi /\ fk = 0
FNext == fk = 0 /\ fk' \in DOMAIN Inputs /\ fci' = fci /\ UNCHANGED apiVars
Refines ==
  fk # 0 =>
  \A md \in 0..(NModes(fci) - 1) :
    LET m == ModeOf(fci, md)
        w == W(fk) IN
    \A i \in 1..Len(w) :
      LET r == FindFromResult(m, w, i)
          B == Best(m, w, i) IN
      IF B = {} THEN r.p = 0 ELSE << r.p, r.e >> \in B
=============================================================================
