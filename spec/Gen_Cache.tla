----------------------------- MODULE Gen_Cache -----------------------------
(***************************************************************************)
(* Behaviour generator for the scanner cache (C13).                        *)
(*                                                                         *)
(* TLC enumerates ALL sequences of MaxBuilds build() calls over the         *)
(* configurations of the World (a base configuration, its one-field        *)
(* neighbours, and configurations that do not build).  In the               *)
(* specification a scanner's behaviour is a function of ITS configuration   *)
(* only (ScannerApi!Build keeps no compiled state; `cache` is a set of      *)
(* configurations and never consulted by any other action) - that is what   *)
(* "the cache is transparent" means.  After every successful build the      *)
(* behaviour scans every probe input with the scanner just returned; the    *)
(* prescribed token streams come from Tokenizer for that configuration.     *)
(* The harness runs every behaviour in a fresh process (empty cache),       *)
(* builds through the cached build() and additionally compares with a       *)
(* build_uncached() twin.                                                   *)
(***************************************************************************)
EXTENDS ScannerApi, Json, IOUtils

VARIABLES hist, nbuilt

cvars == <<scanners, iters, cache, hist, nbuilt>>

ASSUME IOEnv.VERIF_TABLES = "" \/
         JsonSerialize(IOEnv.VERIF_TABLES, [cfgs |-> Cfgs, lo |-> 1, syms |-> Syms])

\* the token stream of a full scan of input k with configuration ci (mode graph included)
RECURSIVE StreamFrom(_)
StreamFrom(it) ==
  LET o == CHOOSE x \in NextOutcomes(it) : TRUE IN
  IF o.tok = NoTok THEN <<>>
  ELSE <<o.tok>> \o StreamFrom([it EXCEPT !.cur = o.cur, !.mode = o.mode])
FreshIter(ci, k) == [sc |-> 0, cfg |-> ci, inp |-> k, cur |-> 1, mode |-> 0, hw |-> 1, posok |-> TRUE, peeked |-> {}]
StreamTab == TLCEval([ci \in DOMAIN Cfgs |->
               IF Buildable(ci) THEN TLCEval([k \in DOMAIN Inputs |-> StreamFrom(FreshIter(ci, k))]) ELSE <<>>])
\* the probes must not depend on an arbitrary choice: every next() has exactly one outcome
Deterministic(ci, k) ==
  LET RECURSIVE Det(_)
      Det(it) == LET O == NextOutcomes(it) IN
                 /\ Cardinality(O) = 1
                 /\ LET o == CHOOSE x \in O : TRUE IN
                    o.tok = NoTok \/ Det([it EXCEPT !.cur = o.cur, !.mode = o.mode])
  IN Det(FreshIter(ci, k))
ASSUME \A ci \in DOMAIN Cfgs : Buildable(ci) => \A k \in DOMAIN Inputs : Deterministic(ci, k)

\* two patterns of one mode report the same token type: only the verdict of the build is checked
\* for such a configuration (C15), it is not scanned (DESIGN 0.35)
SharesTypes(ci) ==
  \E m \in 1..NModes(ci) : LET ps == ModeOf(ci, m - 1).pats IN
    \E p, q \in DOMAIN ps : p # q /\ ps[p].tt = ps[q].tt

CInit == Init /\ hist = <<>> /\ nbuilt = 0

\* what else a scanner shows of its configuration: the mode names, and peek_n(2) at the start
\* of every probe input (a transition into the active mode ends the peek, C11)
NamesOf(ci) == [m \in 1..NModes(ci) |-> ModeOf(ci, m - 1).name]
PeekTab == TLCEval([ci \in DOMAIN Cfgs |->
             IF Buildable(ci) THEN TLCEval([k \in DOMAIN Inputs |-> SetToSeq(PeekResults(FreshIter(ci, k), 2))]) ELSE <<>>])
Scans(ci, s) == [k \in DOMAIN Inputs |-> [op |-> "scan", sc |-> s, w |-> W(k), toks |-> StreamTab[ci][k],
                                           names |-> NamesOf(ci), peekadm |-> PeekTab[ci][k]]]

CNext ==
  /\ nbuilt < MaxBuilds
  /\ \E ci \in DOMAIN Cfgs :
       LET ok == Buildable(ci) IN
       /\ Build(ci, TRUE, ok)
       /\ hist' = Append(hist, [op |-> "build", cfg |-> ci, cached |-> TRUE, ok |-> ok, twin |-> TRUE])
                  \o (IF ok /\ ~SharesTypes(ci) THEN Scans(ci, Len(scanners) + 1) ELSE <<>>)
       /\ nbuilt' = nbuilt + 1

\* C13 as an invariant of the specification: what was built successfully through the cache is
\* exactly the set of buildable configurations requested so far; failing builds leave no trace
CacheCoherent == \A ci \in cache : Buildable(ci)

Emit == (nbuilt = MaxBuilds) => PrintT(<<"REPLAY", ToJson([hist |-> hist])>>)
CInv == CacheCoherent /\ Emit
=============================================================================
