----------------------------- MODULE CacheConc -----------------------------
(***************************************************************************)
(* The process-wide scanner cache under its lock, with N threads (C14).    *)
(*                                                                         *)
(* ScannerBuilder::build() is  SCANNER_CACHE.write().unwrap().get(modes):  *)
(* the whole look-up / compile / insert / clone sequence runs while the    *)
(* WRITE lock of the RwLock is held.  One action per step of that critical *)
(* section, structured like the code (scanner_cache.rs):                   *)
(*    Acquire  - the write lock is taken                 event "enter"     *)
(*    Hit      - the key is present, the scanner cloned  event "hit"       *)
(*    Miss     - the key is absent                       event "miss"      *)
(*    Insert   - compilation succeeded, entry inserted   event "insert"    *)
(*               then get() calls itself: "enter", "hit", "exit" nested    *)
(*    Fail     - compilation failed ("?" returns early)  (no event)        *)
(*    Release  - the guard is dropped                    event "exit"      *)
(* Scans never touch the cache: every iterator works on its own clone of   *)
(* the compiled scanner (ScannerApi's Frame property, C12), so they are    *)
(* not actions here; per-thread results are validated against the          *)
(* sequential specification (Trace_Api).                                   *)
(*                                                                         *)
(* The module has two uses:                                                *)
(*  1. model checking (CInit/CNext/CSpec): all interleavings of Threads    *)
(*     each running the build program Prog[t]; invariants below; liveness. *)
(*  2. trace validation (TInit/TNext): the event log recorded by the       *)
(*     verif_hooks inside ScannerCache::get - emitted under the lock and   *)
(*     ordered by a counter incremented under the lock - must be a         *)
(*     behaviour of the same actions.                                      *)
(***************************************************************************)
EXTENDS Integers, Sequences, FiniteSets, TLC, Json, IOUtils

CONSTANTS Threads,      \* set of thread ids
          Keys,         \* set of configurations (cache keys)
          BadKeys,      \* configurations whose compilation fails
          ProgSpace     \* the build programs explored: a set of functions Threads -> Seq(Keys)

VARIABLES holder,       \* thread holding the write lock, or 0
          depth,        \* nesting depth of get() (2 while get() calls itself after an insert)
          phase,        \* where the holder is inside get(): "none", "entered", "hit", "miss", "inserted", "failed"
          cur,          \* the key the holder asked for
          store,        \* set of keys in the cache
          prog,         \* prog[t]: the sequence of keys thread t builds (chosen initially, never changes)
          ip,           \* ip[t]: index of the next build of thread t
          results       \* results[t]: sequence of <<key, ok>> returned to thread t

core  == <<holder, depth, phase, cur, store>>
cvars == <<holder, depth, phase, cur, store, prog, ip, results>>

CoreInit == holder = 0 /\ depth = 0 /\ phase = "none" /\ cur = 0 /\ store = {}

\* ---- the critical section, one action per step; k is the requested key ----
AcquireK(t, k) == /\ holder = 0
                  /\ holder' = t /\ depth' = 1 /\ phase' = "entered" /\ cur' = k /\ UNCHANGED store
HitK(t)     == /\ holder = t /\ phase = "entered" /\ cur \in store
               /\ phase' = "hit" /\ UNCHANGED <<holder, depth, cur, store>>
MissK(t)    == /\ holder = t /\ phase = "entered" /\ depth = 1 /\ cur \notin store
               /\ phase' = "miss" /\ UNCHANGED <<holder, depth, cur, store>>
\* bad: does the compilation of the requested key fail?
InsertK(t, bad) == /\ holder = t /\ phase = "miss" /\ ~bad
               /\ store' = store \cup {cur} /\ phase' = "inserted" /\ UNCHANGED <<holder, depth, cur>>
FailK(t, bad) == /\ holder = t /\ phase = "miss" /\ bad
               /\ phase' = "failed" /\ UNCHANGED <<holder, depth, cur, store>>
\* get() calls itself after the insert: nested enter
ReenterK(t) == /\ holder = t /\ phase = "inserted" /\ depth = 1
               /\ depth' = 2 /\ phase' = "entered" /\ UNCHANGED <<holder, cur, store>>
\* the nested call returns the clone
ExitNestedK(t) == /\ holder = t /\ depth = 2 /\ phase = "hit"
                  /\ depth' = 1 /\ phase' = "hit" /\ UNCHANGED <<holder, cur, store>>
ReleaseK(t) == /\ holder = t /\ depth = 1 /\ phase \in {"hit", "failed"}
               /\ holder' = 0 /\ depth' = 0 /\ phase' = "none" /\ cur' = 0 /\ UNCHANGED store

\* a failed compilation leaves get() through "?": no event of its own, the guard is dropped
FailExitK(t, bad) == /\ holder = t /\ phase = "miss" /\ depth = 1 /\ bad
                     /\ holder' = 0 /\ depth' = 0 /\ phase' = "none" /\ cur' = 0 /\ UNCHANGED store

\* ---- the model: threads running build programs ----
CInit == /\ CoreInit /\ prog \in ProgSpace
         /\ ip = [t \in Threads |-> 1] /\ results = [t \in Threads |-> <<>>]
Book == UNCHANGED <<prog, ip, results>>
Acquire(t) == ip[t] <= Len(prog[t]) /\ AcquireK(t, prog[t][ip[t]]) /\ Book
Release(t) == /\ ReleaseK(t)
              /\ results' = [results EXCEPT ![t] = Append(@, <<cur, phase = "hit">>)]
              /\ ip' = [ip EXCEPT ![t] = @ + 1]
              /\ UNCHANGED prog
Step(t) == \/ Acquire(t) \/ Release(t)
           \/ ((HitK(t) \/ MissK(t) \/ InsertK(t, cur \in BadKeys) \/ FailK(t, cur \in BadKeys) \/ ReenterK(t) \/ ExitNestedK(t)) /\ Book)
CNext == \E t \in Threads : Step(t)
CSpec == CInit /\ [][CNext]_cvars /\ \A t \in Threads : WF_cvars(Step(t))

\* ---- properties ----
TypeOK == /\ depth \in 0..2
          /\ (holder = 0) = (depth = 0) /\ (holder = 0) = (phase = "none")
\* nothing that fails to compile is ever cached; what is cached was asked for
CacheCoherentC == store \cap BadKeys = {} /\ store \subseteq Keys
\* every thread observes the sequential results: build(k) succeeds iff k compiles, in program order
SequentialResults ==
  \A t \in Threads : \A i \in DOMAIN results[t] :
     results[t][i] = << prog[t][i], prog[t][i] \notin BadKeys >>
\* no deadlock, every program finishes (checked under CSpec, with fairness, no state constraint)
AllDone == \A t \in Threads : ip[t] = Len(prog[t]) + 1
Termination == <>[]AllDone
\* a failing build leaves the cache as it was
FailLeavesCache == [][\A t \in Threads : FailK(t, TRUE) => store' = store]_cvars

=============================================================================
