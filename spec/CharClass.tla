----------------------------- MODULE CharClass -----------------------------
(***************************************************************************)
(* C08: membership in a bracketed class is the boolean combination of its  *)
(* items, for every Unicode scalar value.                                  *)
(*                                                                         *)
(* A class expression is built from BASE SYMBOLS 1..NB (stand-ins for      *)
(* concrete items: literals, ranges, \d \s \w, [:alpha:], \pL, ...) with   *)
(*   [op |-> "base", b |-> k]                                              *)
(*   [op |-> "union", xs |-> <<e, ...>>]      items listed side by side    *)
(*   [op |-> "inter" | "diff" | "symdiff", l |-> e, r |-> e]   && -- ~~    *)
(*   [op |-> "neg", x |-> e]                  [^ ... ]                     *)
(*   [op |-> "grp", x |-> e]                  [ ... ]  nested, no effect   *)
(* An ATOM is a truth assignment to the base symbols (which base items a   *)
(* character belongs to); Member(e, atom) is the membership the property   *)
(* prescribes.  Phase "emit": TLC enumerates the expression shapes.  The   *)
(* harness instantiates the base symbols with concrete items, measures the *)
(* base items ALONE and every whole expression over ALL 1,112,064 scalars  *)
(* through the public API, groups the scalars into atoms, and reports per  *)
(* instantiation the realised atoms with the measured membership of the    *)
(* expression.  Phase "check": TLC evaluates Member on every realised atom  *)
(* and compares; it also checks the base facts of C08 on the measured      *)
(* ASCII tables.                                                           *)
(***************************************************************************)
EXTENDS Integers, Sequences, FiniteSets, TLC, Json, IOUtils

NB == 5
Base(k) == [op |-> "base", b |-> k]
Union2(x, y) == [op |-> "union", xs |-> <<x, y>>]
Union3(x, y, z) == [op |-> "union", xs |-> <<x, y, z>>]
Inter(x, y) == [op |-> "inter", l |-> x, r |-> y]
Diff(x, y) == [op |-> "diff", l |-> x, r |-> y]
SymDiff(x, y) == [op |-> "symdiff", l |-> x, r |-> y]
Neg(x) == [op |-> "neg", x |-> x]
Grp(x) == [op |-> "grp", x |-> x]
Empty == [op |-> "empty"]            \* the missing right operand of a set operator: `[a-z&&]`

RECURSIVE Member(_, _)
Member(e, v) ==
  CASE e.op = "base"    -> v[e.b]
    [] e.op = "union"   -> \E i \in DOMAIN e.xs : Member(e.xs[i], v)
    [] e.op = "inter"   -> Member(e.l, v) /\ Member(e.r, v)
    [] e.op = "diff"    -> Member(e.l, v) /\ ~Member(e.r, v)
    [] e.op = "symdiff" -> Member(e.l, v) # Member(e.r, v)
    [] e.op = "neg"     -> ~Member(e.x, v)
    [] e.op = "grp"     -> Member(e.x, v)
    [] e.op = "empty"   -> FALSE

Bin(j, x, y) == CASE j = 1 -> Union2(x, y) [] j = 2 -> Inter(x, y) [] j = 3 -> Diff(x, y) [] j = 4 -> SymDiff(x, y)
GrowC(L) ==
  LET n == Len(L) IN
  L \o [k \in 1..n |-> Neg(L[k])] \o [k \in 1..n |-> Grp(L[k])]
    \o [k \in 1..(n * n * 4) |-> Bin(((k - 1) % 4) + 1, L[(((k - 1) \div 4) % n) + 1], L[((k - 1) \div (4 * n)) + 1])]
D0 == [k \in 1..NB |-> Base(k)]
D1 == TLCEval(GrowC(D0))                 \* 5 + 10 + 100 = 115
D2 == TLCEval(GrowC(D1))                 \* 115 + 230 + 52900
\* every chain of two or three unary operators (negation, redundant nesting) over a base symbol
Un(j, x) == IF j = 0 THEN Neg(x) ELSE Grp(x)
Chains == [k \in 1..(NB * 4) |-> Un(k % 2, Un((k \div 2) % 2, Base(((k - 1) \div 4) + 1)))]
          \o [k \in 1..(NB * 8) |-> Un(k % 2, Un((k \div 2) % 2, Un((k \div 4) % 2, Base(((k - 1) \div 8) + 1))))]
          \o [k \in 1..(NB * 4) |-> Un(k % 2, Inter(Un((k \div 2) % 2, Base(((k - 1) \div 4) + 1)), Base((k % NB) + 1)))]
Triples == << Union3(Base(1), Base(2), Base(3)), Union3(Base(4), Neg(Base(2)), Base(5)),
              Inter(Union3(Base(1), Base(2), Base(3)), Neg(Union2(Base(2), Base(4)))),
              Neg(Neg(Neg(Base(1)))), Diff(Diff(Base(1), Base(2)), Base(3)), Diff(Base(1), Diff(Base(2), Base(3))),
              SymDiff(SymDiff(Base(1), Base(2)), Base(3)), Neg(SymDiff(Base(1), Neg(Base(2)))) >>

\* set operators whose right operand is missing (regex-syntax accepts `[x&&]`, `[x--]`, `[x~~]`)
EmptyRight == [k \in 1..(NB * 3) |-> Bin(((k - 1) % 3) + 2, Base(((k - 1) \div 3) + 1), Empty)]
              \o [k \in 1..NB |-> Neg(Inter(Base(k), Empty))]
              \o [k \in 1..NB |-> Union2(Grp(Inter(Base(k), Empty)), Base((k % NB) + 1))]
              \o << Inter(Inter(Base(1), Base(2)), Empty), Diff(Inter(Base(1), Empty), Base(2)), Inter(Neg(Base(3)), Empty) >>

Phase == IOEnv.VERIF_PHASE
Stride == atoi(IOEnv.VERIF_STRIDE)
Offset == atoi(IOEnv.VERIF_OFFSET)
\* all shapes of depth <= 1, the hand-picked deeper ones, and every Stride-th shape of depth 2
Shapes == TLCEval(D1 \o Triples \o Chains \o EmptyRight
                  \o [k \in 1..((Len(D2) - Len(D1)) \div Stride) |-> D2[Len(D1) + ((((k - 1) * Stride) + Offset) % (Len(D2) - Len(D1))) + 1]])
ASSUME Phase = "emit" => ndJsonSerialize(IOEnv.VERIF_OUT, [k \in DOMAIN Shapes |-> [id |-> k, e |-> Shapes[k]]])

\* ---- phase "check" ----
Meas == TLCEval(IF Phase = "check" THEN ndJsonDeserialize(IOEnv.VERIF_BACK) ELSE <<>>)
Facts == TLCEval(IF Phase = "check" THEN JsonDeserialize(IOEnv.VERIF_FACTS) ELSE <<>>)
SetOf(seq) == { seq[i] : i \in DOMAIN seq }

\* a measured instantiation: [id, items, atoms: <<[v: <<BOOLEAN x NB>>, member: BOOLEAN, constant: BOOLEAN, count]>>]
AtomOK(e, a) == a.constant /\ (a.member = Member(e, a.v))
CaseOK(m) == m.built /\ \A i \in DOMAIN m.atoms : AtomOK(Shapes[m.id], m.atoms[i])

Max2(a, b) == IF a >= b THEN a ELSE b
Min2(a, b) == IF a <= b THEN a ELSE b
\* surrogate code points are no scalar values
SurrogatesIn(lo, hi) == Max2(0, Min2(hi, 57343) - Max2(lo, 55296) + 1)

\* base facts (C08, second sentence), on what the harness measured through the public API
FactsOK ==
  /\ \A i \in DOMAIN Facts.literals : Facts.literals[i].members = << Facts.literals[i].cp >>   \* a literal matches only itself
  /\ SetOf(Facts.dot_complement) = {10, 13}                         \* . is everything except \n and \r
  /\ SetOf(Facts.dot_top_complement) = {10, 13}                     \* ... also outside brackets
  /\ SetOf(Facts.digit_ascii) = 48..57
  /\ SetOf(Facts.space_ascii) = {9, 10, 11, 12, 13, 32}
  /\ SetOf(Facts.word_ascii) = (48..57) \cup (65..90) \cup (97..122) \cup {95}
  /\ \A i \in DOMAIN Facts.complements :                            \* \D \S \W are the complements of \d \s \w
       \A j \in DOMAIN Facts.complements[i].atoms :
         Facts.complements[i].atoms[j][1] # Facts.complements[i].atoms[j][2]
  /\ \A i \in DOMAIN Facts.ranges :                                 \* ranges have inclusive bounds
       /\ Facts.ranges[i].min = Facts.ranges[i].lo /\ Facts.ranges[i].max = Facts.ranges[i].hi
       /\ Facts.ranges[i].count = Facts.ranges[i].hi - Facts.ranges[i].lo + 1 - SurrogatesIn(Facts.ranges[i].lo, Facts.ranges[i].hi)

VARIABLE ck
KInit == ck = 0
KNext == ck <= Len(Meas) /\ ck' = ck + 1
KReport ==
  /\ (ck = 0 /\ Phase = "check" /\ ~FactsOK) => PrintT(<<"CLASS-FACTS", 0>>)
  /\ (ck >= 1 /\ ck <= Len(Meas) /\ ~CaseOK(Meas[ck])) => PrintT(<<"CLASS-DIFF", ck>>)
=============================================================================
