--------------------------- MODULE TokenizerCore ---------------------------
(***************************************************************************)
(* The non-recursive heart of Tokenizer: candidates, lookahead condition,  *)
(* extent, and the admissible tokens at one position.  The meaning of      *)
(* regular expressions enters only through the operator parameter Ends     *)
(* (Tokenizer instantiates it with RegexSem!Ends), so that TLAPS - which   *)
(* does not accept RECURSIVE operators - can prove facts about these       *)
(* definitions for EVERY input and EVERY pattern set (spec/TokProofs.tla). *)
(***************************************************************************)
EXTENDS Integers, Sequences, FiniteSets

CONSTANT Ends(_, _, _)     \* Ends(re, w, i): positions j such that re matches w[i..j-1]

MaxOf(S) == CHOOSE x \in S : \A y \in S : y <= x
MinOf(S) == CHOOSE x \in S : \A y \in S : x <= y

\* non-empty texts starting at e that the lookahead pattern matches
LookEnds(p, w, e) == { f \in Ends(p.la.re, w, e) : f > e }

\* the lookahead condition of pattern p for a token ending at e
LookOK(p, w, e) ==
  CASE p.la.kind = "none" -> TRUE
    [] p.la.kind = "pos"  -> LookEnds(p, w, e) # {}
    [] p.la.kind = "neg"  -> LookEnds(p, w, e) = {}

\* candidates: <<pattern index, end>> with a non-empty match and satisfied lookahead
Cand(m, w, i) ==
  { c \in UNION { { <<p, e>> : e \in { e \in Ends(m.pats[p].re, w, i) : e > i } } : p \in DOMAIN m.pats } :
      LookOK(m.pats[c[1]], w, c[2]) }

\* extent of a candidate, as the position where its trailing context ends
Ext(m, w, c) ==
  IF m.pats[c[1]].la.kind = "pos" THEN MaxOf(LookEnds(m.pats[c[1]], w, c[2])) ELSE c[2]

\* the admissible tokens: maximal extent, then the pattern listed first.  A SET: two
\* candidates of the same pattern with equal extent are both admissible (C05 only orders
\* candidates of different patterns).  Without lookaheads it is a singleton.
Best(m, w, i) ==
  LET C == Cand(m, w, i) IN
  IF C = {} THEN {}
  ELSE LET mx == MaxOf({ Ext(m, w, c) : c \in C })
           T  == { c \in C : Ext(m, w, c) = mx }
           pp == MinOf({ c[1] : c \in T })
       IN  { c \in T : c[1] = pp }

\* mode transition on a token type (first entry wins; valid configurations have at most one)
HasTrans(m, tt) == \E k \in DOMAIN m.trans : m.trans[k][1] = tt
TransTarget(m, tt) == m.trans[MinOf({ k \in DOMAIN m.trans : m.trans[k][1] = tt })][2]

=============================================================================
