----------------------------- MODULE RegexSem -----------------------------
(***************************************************************************)
(* Regular expressions as scnr understands them, and their meaning.        *)
(*                                                                         *)
(* An input is a sequence w of ATOMS (positive integers).  An atom stands  *)
(* for a set of characters that no leaf class of the configuration at hand *)
(* can tell apart (DESIGN 3.1), so the meaning of a regex over characters   *)
(* is its meaning over atoms.                                              *)
(*                                                                         *)
(* ASTs are records (JSON friendly, the same shape whether they come from  *)
(* TLC's own enumeration or from the harness' translation of the           *)
(* regex-syntax AST):                                                      *)
(*   [op |-> "eps"]                                                        *)
(*   [op |-> "cls", set |-> <<a1, ..., ak>>]   atoms the leaf contains     *)
(*   [op |-> "cat", xs |-> <<r1, ..., rn>>]    n >= 0                      *)
(*   [op |-> "alt", xs |-> <<r1, ..., rn>>]    n >= 1                      *)
(*   [op |-> "star" | "plus" | "opt", l |-> r]                             *)
(*   [op |-> "rep", l |-> r, min |-> m, max |-> n]   n = -1: unbounded     *)
(*                                                                         *)
(* Positions in w are 1..Len(w)+1; Ends(re, w, i) is the set of positions  *)
(* j such that re matches w[i..j-1].                                       *)
(***************************************************************************)
EXTENDS Integers, Sequences, FiniteSets, TLC

InLeaf(set, a) == \E k \in DOMAIN set : set[k] = a

RECURSIVE Ends(_, _, _)
RECURSIVE EndsSeq(_, _, _, _)
RECURSIVE Closure(_, _, _, _)
RECURSIVE Iter(_, _, _, _, _, _)

\* all positions reachable from `frontier` by one or more further matches of re
\* (least fixpoint; `acc` holds what has been reached so far)
Closure(re, w, frontier, acc) ==
  IF frontier = {} THEN acc
  ELSE LET nxt == UNION { Ends(re, w, k) : k \in frontier } \ acc
       IN  Closure(re, w, nxt, acc \cup nxt)

\* concatenation of xs[k..]
EndsSeq(xs, k, w, S) ==
  IF k > Len(xs) \/ S = {} THEN S
  ELSE EndsSeq(xs, k + 1, w, UNION { Ends(xs[k], w, p) : p \in S })

\* counted repetition: `cur` = positions after exactly `done` iterations
Iter(re, w, cur, done, min, max) ==
  IF cur = {} THEN {}
  ELSE IF done >= min /\ max = -1 THEN Closure(re, w, cur, cur)
  ELSE IF done = max THEN cur
  ELSE LET nxt == UNION { Ends(re, w, p) : p \in cur }
       IN  (IF done >= min THEN cur ELSE {}) \cup Iter(re, w, nxt, done + 1, min, max)

\* Counted repetition of a single leaf without iterating match by match: a{66000} on an input of
\* 66 000 characters would otherwise be a recursion 66 000 deep (C17; quadratic in TLC).  RunLenC
\* counts the consecutive atoms of the leaf in w[i..limit] in chunks of `chunk` positions (one
\* bounded quantifier per chunk, recursion depth run/chunk) and looks no further than the end of
\* the run.  RepLeafLemma states that RepLeaf is Iter for every chunk size; bin/check has TLC
\* evaluate it on all small cases with chunks 1..3 (leg L-RepLeaf of C17).
Min2(a, b) == IF a <= b THEN a ELSE b
RECURSIVE RunLenC(_, _, _, _, _)
RunLenC(set, w, i, limit, chunk) ==
  IF i > limit THEN 0
  ELSE LET top == Min2(limit, i + chunk - 1)
           bad == { k \in i..top : ~InLeaf(set, w[k]) } IN
       IF bad = {} THEN (top - i + 1) + RunLenC(set, w, top + 1, limit, chunk)
       ELSE (CHOOSE k \in bad : \A k2 \in bad : k <= k2) - i
RepLeafC(set, w, i, min, max, chunk) ==
  LET limit == IF max = -1 THEN Len(w) ELSE Min2(Len(w), i + max - 1)    \* no match reaches beyond
      run   == RunLenC(set, w, i, limit, chunk)
  IN  { i + c : c \in min..run }
RepLeaf(set, w, i, min, max) == RepLeafC(set, w, i, min, max, 64)

Ends(re, w, i) ==
  CASE re.op = "eps"  -> {i}
    [] re.op = "cls"  -> IF i <= Len(w) /\ InLeaf(re.set, w[i]) THEN {i + 1} ELSE {}
    [] re.op = "cat"  -> EndsSeq(re.xs, 1, w, {i})
    [] re.op = "alt"  -> UNION { Ends(re.xs[k], w, i) : k \in DOMAIN re.xs }
    [] re.op = "star" -> Closure(re.l, w, {i}, {i})
    [] re.op = "plus" -> LET f == Ends(re.l, w, i) IN Closure(re.l, w, f, f)
    [] re.op = "opt"  -> {i} \cup Ends(re.l, w, i)
    [] re.op = "rep"  -> IF re.l.op = "cls" THEN RepLeaf(re.l.set, w, i, re.min, re.max)
                         ELSE Iter(re.l, w, {i}, 0, re.min, re.max)

Matches(re, w, i, j) == j \in Ends(re, w, i)

\* the chunked count agrees with the iteration (evaluated over small words, bounds, leaves, chunks)
RepLeafLemma(Words, Sets, N) ==
  \A w \in Words : \A set \in Sets : \A i \in 1..(Len(w) + 1) : \A min \in 0..N : \A max \in {-1} \cup (min..N) :
    \A chunk \in 1..3 :
      RepLeafC(set, w, i, min, max, chunk) = Iter([op |-> "cls", set |-> set], w, {i}, 0, min, max)

RECURSIVE Nullable(_)
Nullable(re) ==
  CASE re.op = "eps"  -> TRUE
    [] re.op = "cls"  -> FALSE
    [] re.op = "cat"  -> \A k \in DOMAIN re.xs : Nullable(re.xs[k])
    [] re.op = "alt"  -> \E k \in DOMAIN re.xs : Nullable(re.xs[k])
    [] re.op \in {"star", "opt"} -> TRUE
    [] re.op = "plus" -> Nullable(re.l)
    [] re.op = "rep"  -> re.min = 0 \/ Nullable(re.l)

\* constructors (used by the generator modules)
Eps        == [op |-> "eps"]
Cls(s)     == [op |-> "cls", set |-> s]
Cat(a, b)  == [op |-> "cat", xs |-> <<a, b>>]
Alt(a, b)  == [op |-> "alt", xs |-> <<a, b>>]
Star(a)    == [op |-> "star", l |-> a]
Plus(a)    == [op |-> "plus", l |-> a]
Opt(a)     == [op |-> "opt", l |-> a]
Rep(a,m,n) == [op |-> "rep", l |-> a, min |-> m, max |-> n]

(***************************************************************************)
(* The position (Glushkov) automaton of a regex: an operational reading    *)
(* that is deliberately NOT the Thompson construction the code uses.       *)
(* One bottom-up pass numbers the leaves base+1.. and returns              *)
(*   null  - nullable                                                      *)
(*   first - positions that can start a match                              *)
(*   last  - positions that can end a match                                *)
(*   fol   - the follow relation, a set of pairs <<p, q>>                  *)
(*   lf    - <<position, leaf atom sequence>> pairs                        *)
(*   n     - highest position used                                         *)
(***************************************************************************)
RECURSIVE Expand(_)
Copies(x, n) == [k \in 1..n |-> x]
Expand(re) ==
  CASE re.op \in {"eps", "cls"} -> re
    [] re.op \in {"cat", "alt"} -> [op |-> re.op, xs |-> [k \in DOMAIN re.xs |-> Expand(re.xs[k])]]
    [] re.op \in {"star", "plus", "opt"} -> [op |-> re.op, l |-> Expand(re.l)]
    [] re.op = "rep" ->
         LET e == Expand(re.l) IN
         IF re.max = -1
           THEN [op |-> "cat", xs |-> Copies(e, re.min) \o << [op |-> "star", l |-> e] >>]
           ELSE [op |-> "cat", xs |-> Copies(e, re.min) \o Copies([op |-> "opt", l |-> e], re.max - re.min)]

GEps(base) == [null |-> TRUE, first |-> {}, last |-> {}, fol |-> {}, lf |-> {}, n |-> base]
GLeaf(base, set) == [null |-> FALSE, first |-> {base + 1}, last |-> {base + 1}, fol |-> {},
                     lf |-> {<<base + 1, set>>}, n |-> base + 1]
GCat(A, B) == [null  |-> A.null /\ B.null,
               first |-> A.first \cup (IF A.null THEN B.first ELSE {}),
               last  |-> B.last \cup (IF B.null THEN A.last ELSE {}),
               fol   |-> A.fol \cup B.fol \cup { <<p, q>> : p \in A.last, q \in B.first },
               lf    |-> A.lf \cup B.lf, n |-> B.n]
GAlt(A, B) == [null |-> A.null \/ B.null, first |-> A.first \cup B.first,
               last |-> A.last \cup B.last, fol |-> A.fol \cup B.fol,
               lf |-> A.lf \cup B.lf, n |-> B.n]
GLoop(A, nl) == [A EXCEPT !.null = nl,
                          !.fol = A.fol \cup { <<p, q>> : p \in A.last, q \in A.first }]

RECURSIVE Glu(_, _), GluSeq(_, _, _, _)
Glu(re, base) ==
  CASE re.op = "eps"  -> GEps(base)
    [] re.op = "cls"  -> GLeaf(base, re.set)
    [] re.op \in {"cat", "alt"} ->
         IF Len(re.xs) = 0 THEN GEps(base) ELSE GluSeq(re.xs, 1, base, re.op)
    [] re.op = "star" -> GLoop(Glu(re.l, base), TRUE)
    [] re.op = "plus" -> LET A == Glu(re.l, base) IN GLoop(A, A.null)
    [] re.op = "opt"  -> [Glu(re.l, base) EXCEPT !.null = TRUE]
GluSeq(xs, k, base, op) ==
  IF k = Len(xs) THEN Glu(xs[k], base)
  ELSE LET A == Glu(xs[k], base)
           B == GluSeq(xs, k + 1, A.n, op)
       IN  IF op = "cat" THEN GCat(A, B) ELSE GAlt(A, B)

Glushkov(re) == Glu(Expand(re), 0)

\* Ends computed with the position automaton; EndsByPositions = Ends is checked by
\* MC_RegexSem for all small regexes and words.
RECURSIVE GRun(_, _, _, _, _)
GRun(G, w, j, S, acc) ==
  \* S = set of positions occupied after reading w[i..j-1] (non-empty prefix)
  LET acc2 == IF S \cap G.last # {} THEN acc \cup {j} ELSE acc IN
  IF j > Len(w) \/ S = {} THEN acc2
  ELSE LET F == { q \in 1..G.n : \E p \in S : <<p, q>> \in G.fol }
           T == { q \in F : \E r \in G.lf : r[1] = q /\ InLeaf(r[2], w[j]) }
       IN  GRun(G, w, j + 1, T, acc2)

EndsByPositions(re, w, i) ==
  LET G == Glushkov(re)
      S0 == IF i <= Len(w)
              THEN { q \in G.first : \E r \in G.lf : r[1] = q /\ InLeaf(r[2], w[i]) }
              ELSE {}
  IN  (IF G.null THEN {i} ELSE {}) \cup (IF i <= Len(w) THEN GRun(G, w, i + 1, S0, {}) ELSE {})
=============================================================================
