----------------------------- MODULE Trace_Iter -----------------------------
(***************************************************************************)
(* Binding of layer B to the code: the recorded single-iterator traces of  *)
(* the C09 / C10 profiles also log, after every call, the iterator's        *)
(* internal bookkeeping as exposed by the hook FindMatches::verif_state()   *)
(* (offset, last_position, last_char = '\n', line_offsets).  This module    *)
(* replays the calls through IterImpl's operators and compares.             *)
(*                                                                         *)
(* A difference is reported as MODEL-DRIFT, never as a violation: internal  *)
(* bookkeeping may be refactored without breaking any property, and a       *)
(* property check must not alarm then.  What it buys: the layer-B model     *)
(* that TLC proves to refine the user-level promises is shown to be the     *)
(* model OF THIS CODE, and a drift report localises a later violation.      *)
(***************************************************************************)
EXTENDS IterImpl

VARIABLES tpos, drifted
tivars == <<scanners, iters, cache, impl, tpos, drifted>>

TIInit == Init /\ impl = NewImpl /\ tpos = 1 /\ drifted = FALSE

Same(st, logged) ==
  /\ st.off = logged.offset
  /\ st.lastpos = logged.last_position
  /\ st.lastnl = logged.last_nl
  /\ st.lines = { logged.line_offsets[i] : i \in DOMAIN logged.line_offsets }
  /\ ImplOffsetFn(st) = logged.offset_fn

\* the model's bookkeeping after the call (the logged result selects the branch)
ImplAfter(e) ==
  CASE e.op = "newiter"   -> IF e.off = 0 THEN NewImpl ELSE ImplSetOffset(NewImpl, e.inp, e.off)
    [] e.op \in {"next", "nextpos"} ->
         LET R == { r \in NextLoop(impl, K, iters[1].mode) : r.tok = e.res } IN
         IF R = {} THEN impl ELSE (CHOOSE r \in R : TRUE).st
    [] e.op = "setoffset" -> ImplSetOffset(impl, K, e.o)
    [] e.op = "advance"   -> ImplAdvance(impl, K, e.p)
    [] OTHER              -> impl

ApiStep(e) ==
  CASE e.op = "reset"     -> scanners' = <<>> /\ iters' = <<>> /\ cache' = {}
    [] e.op = "build"     -> Build(e.cfg, e.cached, e.ok)
    [] e.op = "newiter"   -> NewIter(e.sc, e.inp, e.off)
    [] e.op = "next"      -> DoNext(e.it, e.res)
    [] e.op = "nextpos"   -> DoNextPos(e.it, e.res, e.sp, e.ep)
    [] e.op = "peek"      -> DoPeek(e.it, e.n, [kind |-> e.kind, toks |-> e.toks, target |-> e.target])
    [] e.op = "setmode"   -> DoSetMode(e.it, e.m)
    [] e.op = "setoffset" -> DoSetOffset(e.it, e.o)
    [] e.op = "advance"   -> DoAdvanceTo(e.it, e.p)
    [] e.op = "position"  -> DoPosition(e.it, e.o, e.res)
    [] OTHER              -> FALSE

TINext ==
  /\ tpos <= Len(Events)
  /\ LET e == Events[tpos] IN
     /\ ApiStep(e)
     /\ impl' = IF e.op = "reset" THEN NewImpl ELSE ImplAfter(e)
     /\ drifted' = IF e.op = "reset" THEN FALSE
                   ELSE drifted \/ ("st" \in DOMAIN e /\ ~Same(impl', e.st))
                                \/ (e.op = "advance" /\ "ret" \in DOMAIN e /\ e.ret # ImplAdvanceRet(impl, K, e.p))
     /\ tpos' = tpos + 1

\* always TRUE; prints the first drifting event of every trace
DriftReport ==
  (tpos > 1 /\ tpos - 1 <= Len(Events) /\ drifted) =>
     LET e == Events[tpos - 1] IN
     (("st" \in DOMAIN e /\ ~Same(impl, e.st)) \/ (e.op = "advance" /\ "ret" \in DOMAIN e /\ e.ret # ImplOffsetFn(impl)))
        => PrintT(<<"MODEL-DRIFT", tpos - 1>>)
TraceEnd == LET d == TLCGet("stats").diameter IN PrintT(<<"TRACE-EXPLAINED-UPTO", d - 1, Len(Events)>>)
=============================================================================
