---------------------------- MODULE DotPicture ----------------------------
(***************************************************************************)
(* C18: the DOT export is a faithful picture of the compiled automata.     *)
(*                                                                         *)
(* A "file" case holds the dump of one mode's compiled automaton (hook)    *)
(* and the graph the harness parsed from the file the code exported for it *)
(* (strict parser for the Graphviz subset; a parse failure leaves          *)
(* wellformed = FALSE).  Picture(dump) is the graph the property           *)
(* prescribes; the case is right iff the parsed graph equals it:           *)
(*   - one node per state whose label shows the state number and, for an   *)
(*     accepting state, the token type after it;                           *)
(*   - one edge per transition whose label shows the class id last;        *)
(*   - one cluster per lookahead whose label shows the token type and a    *)
(*     polarity word, picturing that lookahead's automaton;                *)
(*   - node names unique in the whole file (DOT node names are global).    *)
(* The relation reads integers off labels and does not fix a label format: *)
(* a maintainer may reword labels without breaking the property.           *)
(* A "dir" case says which files were written: exactly one per mode, named *)
(* <prefix>_<mode name>.dot.  A "fault" case is an export into a folder    *)
(* that cannot be written to: the call must return an error.               *)
(***************************************************************************)
EXTENDS Integers, Sequences, FiniteSets, TLC, Json, IOUtils

DCases == TLCEval(JsonDeserialize(IOEnv.VERIF_CASES))
SetOf(seq) == { seq[i] : i \in DOMAIN seq }

AccOf(A) == [s \in 0..(A.n - 1) |-> { r[2] : r \in { r \in SetOf(A.acc) : r[1] = s } }]

\* The relation is stated on what the picture SHOWS, not on one label format: the harness reads
\* the integers off every label (nums).  A node shows its state number first and, iff the state
\* is accepting (and not the start state, which is never accepting), the token type after it.
NodeShows(nd, s, acc) ==
  /\ nd.nums # <<>> /\ nd.nums[1] = s
  /\ IF s # 0 /\ acc # {} THEN Len(nd.nums) = 2 /\ nd.nums[2] \in acc ELSE Len(nd.nums) = 1

\* G pictures automaton A iff its nodes are in bijection with the states (through the state
\* number shown), every node shows what NodeShows demands, and the edges, read through that
\* bijection with the class id they show, are exactly the transitions (no duplicates either side).
GraphOK(G, A) ==
  LET acc == AccOf(A)
      stateOf == [i \in DOMAIN G.nodes |-> IF G.nodes[i].nums = <<>> THEN -1 ELSE G.nodes[i].nums[1]]
      idOf(name) == { stateOf[i] : i \in { i \in DOMAIN G.nodes : G.nodes[i].id = name } } IN
  /\ Len(G.nodes) = A.n
  /\ { stateOf[i] : i \in DOMAIN G.nodes } = 0..(A.n - 1)
  /\ \A i \in DOMAIN G.nodes : NodeShows(G.nodes[i], stateOf[i], acc[stateOf[i]])
  /\ \A j \in DOMAIN G.edges : Cardinality(idOf(G.edges[j].from)) = 1 /\ Cardinality(idOf(G.edges[j].to)) = 1
  /\ { << CHOOSE x \in idOf(G.edges[j].from) : TRUE, G.edges[j].cls, CHOOSE x \in idOf(G.edges[j].to) : TRUE >> : j \in DOMAIN G.edges }
       = SetOf(A.trans)
  /\ Len(G.edges) = Len(A.trans)
  /\ Cardinality(SetOf(A.trans)) = Len(A.trans)

\* one cluster per lookahead, showing its token type and polarity and picturing its automaton
ClustersOK(G, A) ==
  /\ Len(G.clusters) = Len(A.la)
  /\ \A i \in DOMAIN A.la :
       \E j \in DOMAIN G.clusters :
         /\ A.la[i].tt \in SetOf(G.clusters[j].nums)
         /\ G.clusters[j].polarity = (IF A.la[i].pos THEN "pos" ELSE "neg")
         /\ GraphOK(G.clusters[j], A.la[i])
         /\ G.clusters[j].clusters = <<>>
\* node names are global in DOT: the same name in two places is the same node
AllNodeIds(G) == [i \in DOMAIN G.nodes |-> G.nodes[i].id]
RECURSIVE ClusterIds(_, _)
ClusterIds(G, j) == IF j > Len(G.clusters) THEN <<>> ELSE AllNodeIds(G.clusters[j]) \o ClusterIds(G, j + 1)
NamesUnique(G) == LET ids == AllNodeIds(G) \o ClusterIds(G, 1) IN Cardinality(SetOf(ids)) = Len(ids)

FileOK(cs) ==
  /\ cs.returned = "ok"
  /\ cs.exists
  /\ cs.wellformed
  /\ GraphOK(cs.graph, cs.dump)
  /\ ClustersOK(cs.graph, cs.dump)
  /\ NamesUnique(cs.graph)

DirOK(cs) == cs.returned = "ok" /\ (cs.distinct => cs.listed = cs.expected)
FaultOK(cs) == cs.returned = "err"

CaseOK(cs) == CASE cs.kind = "file" -> FileOK(cs) [] cs.kind = "dir" -> DirOK(cs) [] cs.kind = "fault" -> FaultOK(cs)

VARIABLE dk
DInit == dk = 1
DNext == dk <= Len(DCases) /\ dk' = dk + 1
\* always TRUE; prints the cases whose relation fails
DReport == (dk <= Len(DCases) /\ ~CaseOK(DCases[dk])) => PrintT(<<"DOT-DIFF", dk>>)
=============================================================================
