---------------------------- MODULE DotPicture ----------------------------
(***************************************************************************)
(* C18: the DOT export is a faithful picture of the compiled automata.     *)
(*                                                                         *)
(* A "file" case holds the dump of one mode's compiled automaton (hook)    *)
(* and the graph the harness parsed from the file the code exported for it *)
(* (strict parser for the Graphviz subset; a parse failure leaves          *)
(* wellformed = FALSE).  Picture(dump) is the graph the property           *)
(* prescribes; the case is right iff the parsed graph equals it:           *)
(*   - one node per state, named by the state number, labelled "<s>" or,   *)
(*     for an accepting state other than the start state, "<s> T<type>";   *)
(*   - one edge per transition, whose label ends in "(C#<class id>)";      *)
(*   - one cluster per lookahead, labelled "LA for T<type>(Pos|Neg)",      *)
(*     holding that lookahead's automaton with node names "<type>_<s>".    *)
(* A "dir" case says which files were written: exactly one per mode, named *)
(* <prefix>_<mode name>.dot.  A "fault" case is an export into a folder    *)
(* that cannot be written to: the call must return an error.               *)
(***************************************************************************)
EXTENDS Integers, Sequences, FiniteSets, TLC, Json, IOUtils

DCases == TLCEval(JsonDeserialize(IOEnv.VERIF_CASES))
SetOf(seq) == { seq[i] : i \in DOMAIN seq }

NodeLabel(s, accOf) == IF s # 0 /\ accOf[s] # {} THEN ToString(s) \o " T" \o ToString(CHOOSE t \in accOf[s] : TRUE)
                       ELSE ToString(s)
AccOf(A) == [s \in 0..(A.n - 1) |-> { r[2] : r \in { r \in SetOf(A.acc) : r[1] = s } }]

\* the picture of one automaton: node and edge sets with names prefixed by pre
PicNodes(A, pre) == LET acc == AccOf(A) IN { [id |-> pre \o ToString(s), label |-> NodeLabel(s, acc)] : s \in 0..(A.n - 1) }
PicEdges(A, pre) == { [from |-> pre \o ToString(t[1]), to |-> pre \o ToString(t[3]), cls |-> t[2]] : t \in SetOf(A.trans) }

GraphOK(G, A, pre) ==
  /\ SetOf(G.nodes) = PicNodes(A, pre)
  /\ Len(G.nodes) = A.n                                   \* no state drawn twice
  /\ SetOf(G.edges) = PicEdges(A, pre)
  /\ Len(G.edges) = Len(A.trans)                          \* no transition drawn twice or dropped
  /\ Cardinality(SetOf(A.trans)) = Len(A.trans)

LaLabel(l) == "LA for T" \o ToString(l.tt) \o (IF l.pos THEN "(Pos)" ELSE "(Neg)")
ClustersOK(G, A) ==
  /\ Len(G.clusters) = Len(A.la)
  /\ \A i \in DOMAIN A.la :
       \E j \in DOMAIN G.clusters :
         /\ G.clusters[j].label = LaLabel(A.la[i])
         /\ GraphOK(G.clusters[j], A.la[i], ToString(A.la[i].tt) \o "_")
         /\ G.clusters[j].clusters = <<>>

FileOK(cs) ==
  /\ cs.returned = "ok"
  /\ cs.exists
  /\ cs.wellformed
  /\ GraphOK(cs.graph, cs.dump, "")
  /\ ClustersOK(cs.graph, cs.dump)

DirOK(cs) == cs.returned = "ok" /\ (cs.distinct => cs.listed = cs.expected)
FaultOK(cs) == cs.returned = "err"

CaseOK(cs) == CASE cs.kind = "file" -> FileOK(cs) [] cs.kind = "dir" -> DirOK(cs) [] cs.kind = "fault" -> FaultOK(cs)

VARIABLE dk
DInit == dk = 1
DNext == dk <= Len(DCases) /\ dk' = dk + 1
\* always TRUE; prints the cases whose relation fails
DReport == (dk <= Len(DCases) /\ ~CaseOK(DCases[dk])) => PrintT(<<"DOT-DIFF", dk>>)
=============================================================================
