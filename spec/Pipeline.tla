------------------------------ MODULE Pipeline ------------------------------
(***************************************************************************)
(* Layer B: the construction pipeline of scnr, written like the code:       *)
(*   Thompson construction            (nfa.rs: Nfa::try_from_ast, concat,   *)
(*                                     alternation, zero_or_one, ...)        *)
(*   union of the pattern NFAs        (multi_pattern_nfa.rs: state 0 plus    *)
(*                                     the renumbered NFAs)                  *)
(*   closure construction             (compiled_dfa.rs: one compiled state   *)
(*                                     per epsilon-closure of a target)      *)
(*   partition refinement             (minimizer.rs), with a parameter W for *)
(*                                     the width of group ids                *)
(* The result is simulated as a state SET (classes overlap) and compared    *)
(* with the denotational meaning of the patterns by product exploration,    *)
(* as Equiv does for the dumps of the real code.  TLC checks:               *)
(*   PipelineCorrect : for every configuration of the World the automaton   *)
(*     before AND after minimisation accepts, after every non-empty string, *)
(*     exactly the token types whose pattern matches the string; the empty  *)
(*     string is accepted for no type.                                      *)
(* Switches (unrepaired / wrong designs that TLC must refute):              *)
(*   DropLeadingEmptyAlt : Nfa::alternation replaces an empty left side     *)
(*                         (the code before its repair, DESIGN 6 D1)        *)
(*   IgnoreTypes         : the initial partition does not separate token    *)
(*                         types                                            *)
(*   GW                  : group ids are truncated to GW bits (0 = no       *)
(*                         truncation); the code before repair D7 had 16    *)
(* Abstraction: a state's refinement signature is the BAG of <<class,       *)
(* group>> pairs; the code compares the list sorted by class and target id, *)
(* which distinguishes at least as much.                                    *)
(***************************************************************************)
EXTENDS ScannerApi, Json, IOUtils

CONSTANTS DropLeadingEmptyAlt, IgnoreTypes, GW

\* ---- Thompson construction: [n, start, end, eps: set of <<p,q>>, tr: set of <<p, leaf, q>>] ----
EmptyNfa == [n |-> 1, start |-> 0, end |-> 0, eps |-> {}, tr |-> {}]
IsEmptyNfa(A) == A.n = 1 /\ A.start = 0 /\ A.end = 0 /\ A.eps = {} /\ A.tr = {}
Shift(A, k) == [n |-> A.n, start |-> A.start + k, end |-> A.end + k,
                eps |-> { <<e[1] + k, e[2] + k>> : e \in A.eps },
                tr |-> { <<t[1] + k, t[2], t[3] + k>> : t \in A.tr }]
LeafNfa(set) == [n |-> 2, start |-> 0, end |-> 1, eps |-> {}, tr |-> {<<0, set, 1>>}]

ConcatNfa(A, B) ==
  IF IsEmptyNfa(A) THEN B
  ELSE LET B2 == Shift(B, A.n) IN
       [n |-> A.n + B.n, start |-> A.start, end |-> B2.end,
        eps |-> A.eps \cup B2.eps \cup {<<A.end, B2.start>>}, tr |-> A.tr \cup B2.tr]
AltNfa(A, B) ==
  IF DropLeadingEmptyAlt /\ IsEmptyNfa(A) THEN B
  ELSE LET B2 == Shift(B, A.n)
           s == A.n + B.n
           e == s + 1 IN
       [n |-> e + 1, start |-> s, end |-> e,
        eps |-> A.eps \cup B2.eps \cup {<<s, A.start>>, <<s, B2.start>>, <<A.end, e>>, <<B2.end, e>>},
        tr |-> A.tr \cup B2.tr]
OptNfa(A) == [A EXCEPT !.n = A.n + 1, !.start = A.n, !.eps = @ \cup {<<A.n, A.start>>, <<A.n, A.end>>}]
PlusNfa(A) == [A EXCEPT !.n = A.n + 2, !.start = A.n, !.end = A.n + 1,
                        !.eps = @ \cup {<<A.n, A.start>>, <<A.end, A.n + 1>>, <<A.end, A.start>>}]
StarNfa(A) == [A EXCEPT !.n = A.n + 2, !.start = A.n, !.end = A.n + 1,
                        !.eps = @ \cup {<<A.n, A.start>>, <<A.n, A.end>>, <<A.end, A.n + 1>>, <<A.end, A.start>>}]

RECURSIVE Thompson(_), ConcatAll(_, _, _), AltAll(_, _, _), RepCopies(_, _, _)
RepCopies(acc, A, k) == IF k = 0 THEN acc ELSE RepCopies(ConcatNfa(acc, A), A, k - 1)
ConcatAll(acc, xs, j) == IF j > Len(xs) THEN acc ELSE ConcatAll(ConcatNfa(acc, Thompson(xs[j])), xs, j + 1)
\* the first alternative is taken over as it is (repaired code); with DropLeadingEmptyAlt the
\* loop of the unrepaired code is modelled: alternation onto the empty NFA replaces it
AltAll(acc, xs, j) ==
  IF j > Len(xs) THEN acc
  ELSE AltAll(IF j = 1 /\ ~DropLeadingEmptyAlt THEN ConcatNfa(acc, Thompson(xs[j])) ELSE AltNfa(acc, Thompson(xs[j])), xs, j + 1)
Thompson(re) ==
  CASE re.op = "eps"  -> EmptyNfa
    [] re.op = "cls"  -> LeafNfa(re.set)
    [] re.op = "cat"  -> ConcatAll(EmptyNfa, re.xs, 1)
    [] re.op = "alt"  -> AltAll(EmptyNfa, re.xs, 1)
    [] re.op = "star" -> StarNfa(Thompson(re.l))
    [] re.op = "plus" -> PlusNfa(Thompson(re.l))
    [] re.op = "opt"  -> OptNfa(Thompson(re.l))
    [] re.op = "rep"  ->
         LET A == Thompson(re.l)
             base == RepCopies(EmptyNfa, A, re.min) IN
         IF re.max = -1 THEN ConcatNfa(base, StarNfa(A))
         ELSE RepCopies(base, OptNfa(A), re.max - re.min)

\* ---- union: state 0 plus the pattern NFAs, renumbered one after the other ----
RECURSIVE UnionFrom(_, _, _, _)
UnionFrom(pats, j, next, acc) ==
  IF j > Len(pats) THEN acc
  ELSE LET A == Shift(Thompson(pats[j].re), next) IN
       UnionFrom(pats, j + 1, next + A.n,
                 [eps |-> acc.eps \cup A.eps \cup {<<0, A.start>>}, tr |-> acc.tr \cup A.tr,
                  fin |-> acc.fin \cup {<<A.end, pats[j].tt>>},
                  owner |-> acc.owner \cup { <<q, pats[j].tt>> : q \in next..(next + A.n - 1) }])
UnionNfa(pats) == UnionFrom(pats, 1, 1, [eps |-> {}, tr |-> {}, fin |-> {}, owner |-> {}])

RECURSIVE EClose(_, _)
EClose(U, S) == LET T == S \cup { e[2] : e \in { e \in U.eps : e[1] \in S } } IN IF T = S THEN S ELSE EClose(U, T)

\* ---- closure construction: compiled states are epsilon-closures of single target states ----
RECURSIVE Explore(_, _, _, _)
Explore(U, todo, seen, trans) ==
  IF todo = {} THEN [states |-> seen, trans |-> trans]
  ELSE LET S == CHOOSE x \in todo : TRUE
           out == { <<t[2], EClose(U, {t[3]})>> : t \in { t \in U.tr : t[1] \in S } }
           new == { o[2] : o \in out } \ seen
       IN Explore(U, (todo \ {S}) \cup new, seen \cup new, trans \cup { <<S, o[1], o[2]>> : o \in out })
Compile(pats) ==
  LET U == UnionNfa(pats)
      S0 == EClose(U, {0})
      G == Explore(U, {S0}, {S0}, {}) IN
  [states |-> G.states, init |-> S0, trans |-> G.trans,
   acc |-> [S \in G.states |-> IF S = S0 THEN {} ELSE { f[2] : f \in { f \in U.fin : f[1] \in S } }]]

\* ---- partition refinement with group ids of W bits ----
RECURSIVE Pow2(_)
Pow2(k) == IF k = 0 THEN 1 ELSE 2 * Pow2(k - 1)
\* a partition is a sequence of disjoint sets of states; group id = index - 1, truncated
GroupOf(P, S) == LET g == (CHOOSE i \in DOMAIN P : S \in P[i]) - 1 IN IF GW = 0 THEN g ELSE g % Pow2(GW)
Signature(A, P, S) ==
  LET outs == { t \in A.trans : t[1] = S }
      pairs == { <<t[2], GroupOf(P, t[3])>> : t \in outs } IN
  [p \in pairs |-> Cardinality({ t \in outs : <<t[2], GroupOf(P, t[3])>> = p })]
InitialPartition(A) ==
  LET nonacc == { S \in A.states : A.acc[S] = {} }
      types == IF IgnoreTypes THEN { {} } ELSE { A.acc[S] : S \in A.states \ nonacc }
      groups == { G \in { { S \in A.states \ nonacc : IgnoreTypes \/ A.acc[S] = ty } : ty \in types } : G # {} } IN
  << nonacc >> \o SetToSeq(groups)
SplitGroup(A, P, G) == { { S \in G : Signature(A, P, S) = sig } : sig \in { Signature(A, P, S) : S \in G } }
RECURSIVE RefineSeq(_, _, _)
RefineSeq(A, P, j) == IF j > Len(P) THEN <<>>
                      ELSE (IF P[j] = {} THEN << {} >> ELSE SetToSeq(SplitGroup(A, P, P[j]))) \o RefineSeq(A, P, j + 1)
RECURSIVE Refine(_, _)
Refine(A, P) == LET Q == RefineSeq(A, P, 1) IN IF Len(Q) = Len(P) THEN P ELSE Refine(A, Q)
\* the quotient: one state per group, accepting if a member is (type of some member)
Minimize(A) ==
  LET P == Refine(A, InitialPartition(A))
      grp(S) == CHOOSE i \in DOMAIN P : S \in P[i] IN
  [states |-> { i \in DOMAIN P : P[i] # {} }, init |-> grp(A.init),
   trans |-> { << grp(t[1]), t[2], grp(t[3]) >> : t \in A.trans },
   acc |-> [i \in { i \in DOMAIN P : P[i] # {} } |-> UNION { A.acc[S] : S \in P[i] }]]

\* ---- simulation and the correctness check ----
StepA(A, Q, a) == { t[3] : t \in { t \in A.trans : t[1] \in Q /\ InLeaf(t[2], a) } }
AccA(A, Q) == UNION { A.acc[S] : S \in Q }
\* token types whose pattern matches the whole word (non-empty)
SpecAcc(pats, w) == { pats[p].tt : p \in { p \in DOMAIN pats : (Len(w) + 1) \in Ends(pats[p].re, w, 1) } }

RECURSIVE Run(_, _, _, _)
Run(A, Q, w, j) == IF j > Len(w) THEN Q ELSE Run(A, StepA(A, Q, w[j]), w, j + 1)

VARIABLES pci, pk
\* (configurations are handed out by Next so that TLC's workers share them)
PInit == Init /\ pci = 0 /\ pk = 0
PNext == pci = 0 /\ pci' \in CfgLo..CfgHi /\ UNCHANGED <<apiVars, pk>>
\* every word of the World's inputs is run through both automata of every mode
PipelineCorrect ==
  pci # 0 =>
  \A md \in 0..(NModes(pci) - 1) :
    LET pats == ModeOf(pci, md).pats
        A == Compile(pats)
        M == Minimize(A) IN
    /\ AccA(A, {A.init}) = {} /\ AccA(M, {M.init}) = {}
    /\ Cardinality(M.states) <= Cardinality(A.states)
    /\ \A k \in DOMAIN Inputs :
         LET w == W(k) IN
         w # <<>> => /\ AccA(A, Run(A, {A.init}, w, 1)) = SpecAcc(pats, w)
                     /\ AccA(M, Run(M, {M.init}, w, 1)) = SpecAcc(pats, w)
\* ---- binding to the code (MODEL-DRIFT): sizes of the automata the code built ------------------
\* PCases: the "mode" cases of a dump (harness `dump`): source patterns with atomised leaves, the
\* number of states and transitions of the automaton that ENTERED the minimiser (pre_n,
\* pre_trans) and of the one that left it (impl.n).  The closure construction is deterministic, so
\* Compile must produce exactly as many states; the model's minimiser may merge more than the
\* code's (bag signatures, see above), never less.  Differences are informational (drift).
PCases == TLCEval(IF "VERIF_PCASES" \in DOMAIN IOEnv THEN JsonDeserialize(IOEnv.VERIF_PCASES) ELSE <<>>)
DInit == Init /\ pci = 0 /\ pk = 0
DNext == pk = 0 /\ pk' \in DOMAIN PCases /\ UNCHANGED <<pci, scanners, iters, cache>>
SizeDrift ==
  pk # 0 =>
    LET cs == PCases[pk]
        A == Compile(cs.pats)
        M == Minimize(A) IN
    (Cardinality(A.states) # cs.pre_n \/ Cardinality(M.states) > cs.impl.n)
      => PrintT(<<"MODEL-DRIFT", pk, Cardinality(A.states), cs.pre_n, Cardinality(M.states), cs.impl.n>>)

=============================================================================
