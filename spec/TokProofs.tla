----------------------------- MODULE TokProofs -----------------------------
(***************************************************************************)
(* Facts about the admissible tokens that hold for EVERY input, position   *)
(* and pattern set, proved with TLAPS (tlapm) instead of enumerated by TLC. *)
(* They are the specification-level halves of C01/C04/C05/C07:             *)
(*   - every admissible token is a candidate (BestSubCand);                *)
(*   - every candidate is a non-empty match of its own pattern starting    *)
(*     at the scan position whose lookahead condition holds (CandSound);   *)
(*   - every match with a satisfied lookahead is a candidate (CandComplete);*)
(*   - a lookahead never belongs to the token: the token ends where its    *)
(*     own pattern's match ends (part of CandSound);                       *)
(*   - without candidates there is no token, and all admissible tokens     *)
(*     come from one pattern (BestOnePattern).                             *)
(* Ends is an uninterpreted operator here: the facts do not depend on what *)
(* regular expressions mean.                                               *)
(***************************************************************************)
EXTENDS TokenizerCore, FiniteSetTheorems, TLAPS

THEOREM BestSubCand ==
  ASSUME NEW m, NEW w, NEW i, NEW c \in Best(m, w, i)
  PROVE  c \in Cand(m, w, i)
BY DEF Best

THEOREM CandSound ==
  ASSUME NEW m, NEW w, NEW i \in Int, NEW c \in Cand(m, w, i)
  PROVE  /\ c[1] \in DOMAIN m.pats
         /\ c[2] \in Ends(m.pats[c[1]].re, w, i)
         /\ c[2] > i
         /\ LookOK(m.pats[c[1]], w, c[2])
BY DEF Cand

THEOREM CandComplete ==
  ASSUME NEW m, NEW w, NEW i \in Int, NEW p \in DOMAIN m.pats,
         NEW e \in Ends(m.pats[p].re, w, i), e > i, LookOK(m.pats[p], w, e)
  PROVE  <<p, e>> \in Cand(m, w, i)
BY DEF Cand

THEOREM BestEmptyIffNoCand ==
  ASSUME NEW m, NEW w, NEW i, Cand(m, w, i) = {}
  PROVE  Best(m, w, i) = {}
BY DEF Best

THEOREM BestOnePattern ==
  ASSUME NEW m, NEW w, NEW i, NEW c \in Best(m, w, i), NEW d \in Best(m, w, i)
  PROVE  c[1] = d[1]
BY DEF Best

(***************************************************************************)
(* The choice among candidates (C01: longest match, then the pattern       *)
(* listed first; C05: maximal extent including a positive lookahead).      *)
(* MaxOf / MinOf are CHOOSE expressions: they mean something only because  *)
(* a finite non-empty set of integers has a greatest and a least element.  *)
(***************************************************************************)
LEMMA FiniteIntHasMax ==
  ASSUME NEW S \in SUBSET Int, IsFiniteSet(S), S # {}
  PROVE  \E x \in S : \A y \in S : y <= x
<1> DEFINE P(T) == (T \in SUBSET Int /\ T # {}) => \E x \in T : \A y \in T : y <= x
<1>1. P({})  OBVIOUS
<1>2. ASSUME NEW T \in SUBSET S, IsFiniteSet(T), P(T), NEW z \in S \ T
      PROVE  P(T \cup {z})
  <2>1. CASE T = {}
    BY <2>1
  <2>2. CASE T # {}
    <3>1. PICK x \in T : \A y \in T : y <= x  BY <1>2, <2>2
    <3>2. CASE z <= x  BY <3>1, <3>2
    <3>3. CASE ~(z <= x)
      <4>1. \A y \in T \cup {z} : y <= z  BY <3>1, <3>3
      <4> QED BY <4>1
    <3> QED BY <3>2, <3>3
  <2> QED BY <2>1, <2>2
<1>3. P(S)
  <2> HIDE DEF P
  <2> QED BY <1>1, <1>2, FS_Induction, IsaM("blast")
<1> QED BY <1>3

LEMMA FiniteIntHasMin ==
  ASSUME NEW S \in SUBSET Int, IsFiniteSet(S), S # {}
  PROVE  \E x \in S : \A y \in S : x <= y
<1> DEFINE P(T) == (T \in SUBSET Int /\ T # {}) => \E x \in T : \A y \in T : x <= y
<1>1. P({})  OBVIOUS
<1>2. ASSUME NEW T \in SUBSET S, IsFiniteSet(T), P(T), NEW z \in S \ T
      PROVE  P(T \cup {z})
  <2>1. CASE T = {}
    BY <2>1
  <2>2. CASE T # {}
    <3>1. PICK x \in T : \A y \in T : x <= y  BY <1>2, <2>2
    <3>2. CASE x <= z  BY <3>1, <3>2
    <3>3. CASE ~(x <= z)
      <4>1. \A y \in T \cup {z} : z <= y  BY <3>1, <3>3
      <4> QED BY <4>1
    <3> QED BY <3>2, <3>3
  <2> QED BY <2>1, <2>2
<1>3. P(S)
  <2> HIDE DEF P
  <2> QED BY <1>1, <1>2, FS_Induction, IsaM("blast")
<1> QED BY <1>3

THEOREM MaxOfIsMax ==
  ASSUME NEW S \in SUBSET Int, IsFiniteSet(S), S # {}
  PROVE  MaxOf(S) \in S /\ \A y \in S : y <= MaxOf(S)
BY FiniteIntHasMax DEF MaxOf

THEOREM MinOfIsMin ==
  ASSUME NEW S \in SUBSET Int, IsFiniteSet(S), S # {}
  PROVE  MinOf(S) \in S /\ \A y \in S : MinOf(S) <= y
BY FiniteIntHasMin DEF MinOf

\* the standing assumptions: finitely many candidates, extents and pattern indices are integers
\* (true whenever w is a finite sequence and m.pats a sequence: Ends yields positions 1..Len(w)+1)
Sane(m, w, i) ==
  /\ IsFiniteSet(Cand(m, w, i))
  /\ \A x \in Cand(m, w, i) : Ext(m, w, x) \in Int /\ x[1] \in Int

THEOREM BestMaximalExtent ==
  ASSUME NEW m, NEW w, NEW i, Sane(m, w, i),
         NEW c \in Best(m, w, i), NEW d \in Cand(m, w, i)
  PROVE  Ext(m, w, d) <= Ext(m, w, c)
<1> DEFINE C == Cand(m, w, i)
           E == { Ext(m, w, x) : x \in C }
<1>1. E \in SUBSET Int /\ IsFiniteSet(E) /\ E # {}
  BY FS_Image DEF Sane
<1>2. MaxOf(E) \in E /\ \A y \in E : y <= MaxOf(E)
  BY <1>1, MaxOfIsMax
<1>3. Ext(m, w, c) = MaxOf(E)
  BY DEF Best
<1>4. Ext(m, w, d) \in E
  OBVIOUS
<1> QED BY <1>2, <1>3, <1>4

THEOREM BestFirstListed ==
  ASSUME NEW m, NEW w, NEW i, Sane(m, w, i),
         NEW c \in Best(m, w, i), NEW d \in Cand(m, w, i), Ext(m, w, d) = Ext(m, w, c)
  PROVE  c[1] <= d[1]
<1> DEFINE C == Cand(m, w, i)
           E == { Ext(m, w, x) : x \in C }
           T == { x \in C : Ext(m, w, x) = MaxOf(E) }
           PP == { x[1] : x \in T }
<1>1. Ext(m, w, c) = MaxOf(E) /\ c[1] = MinOf(PP)
  BY DEF Best
<1>2. d \in T
  BY <1>1
<1>3. PP \in SUBSET Int /\ IsFiniteSet(PP) /\ PP # {}
  <2>1. IsFiniteSet(T)  BY FS_Subset DEF Sane
  <2>2. IsFiniteSet(PP)  BY <2>1, FS_Image
  <2> QED BY <1>2, <2>2 DEF Sane
<1>4. \A y \in PP : MinOf(PP) <= y
  BY <1>3, MinOfIsMin
<1>5. d[1] \in PP
  BY <1>2
<1> QED BY <1>1, <1>4, <1>5

THEOREM BestExists ==
  ASSUME NEW m, NEW w, NEW i, Sane(m, w, i), Cand(m, w, i) # {}
  PROVE  Best(m, w, i) # {}
<1> DEFINE C == Cand(m, w, i)
           E == { Ext(m, w, x) : x \in C }
           T == { x \in C : Ext(m, w, x) = MaxOf(E) }
           PP == { x[1] : x \in T }
<1>1. E \in SUBSET Int /\ IsFiniteSet(E) /\ E # {}
  BY FS_Image DEF Sane
<1>2. MaxOf(E) \in E
  BY <1>1, MaxOfIsMax
<1>3. T # {}
  BY <1>2
<1>4. PP \in SUBSET Int /\ IsFiniteSet(PP) /\ PP # {}
  <2>1. IsFiniteSet(T)  BY FS_Subset DEF Sane
  <2>2. IsFiniteSet(PP)  BY <2>1, FS_Image
  <2> QED BY <1>3, <2>2 DEF Sane
<1>5. MinOf(PP) \in PP
  BY <1>4, MinOfIsMin
<1>6. PICK c \in T : c[1] = MinOf(PP)
  BY <1>5
<1>7. c \in Best(m, w, i)
  BY <1>6 DEF Best
<1> QED BY <1>7
=============================================================================
