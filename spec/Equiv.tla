------------------------------- MODULE Equiv -------------------------------
(***************************************************************************)
(* Language equivalence by product exploration (C02, C03).                 *)
(*                                                                         *)
(* A case compares two automata over the finite alphabet of ATOMS (classes *)
(* of Unicode scalar values that no leaf and no registered character class *)
(* of the program tells apart; computed by the harness over ALL scalars):  *)
(*   kind "mode" / "la": LEFT  = the position (Glushkov) automaton of the  *)
(*                               source patterns (RegexSem, this spec),     *)
(*                       RIGHT = the automaton the code compiled (dump);    *)
(*   kind "min"        : LEFT  = the automaton that entered the minimizer,  *)
(*                       RIGHT = the automaton that left it.                *)
(* Both sides are simulated as state SETS (the compiled automata are non-  *)
(* deterministic because character classes overlap).  The invariant is     *)
(* "after every non-empty string both sides accept the same set of token   *)
(* types", and "the empty string is accepted for no type".  The product is *)
(* finite, so reaching the fixpoint decides the property for ALL strings.  *)
(* `word` is hidden by the VIEW: it only records one (shortest, by BFS)    *)
(* string leading to each product state, for the counter-example.          *)
(***************************************************************************)
EXTENDS RegexSem, Json, IOUtils

Cases == TLCEval(JsonDeserialize(IOEnv.VERIF_CASES))
NC == Len(Cases)
SetOf(seq) == { seq[k] : k \in DOMAIN seq }

\* ---- dumped automata ----
\* A.out[s+1] = sequence of <<class id, target>> leaving state s;  A.acc = <<state, type>> pairs
\* (every inner function is forced with TLCEval: a function constructor is lazy in TLC and
\* would otherwise be re-evaluated at every application)
ClsAtoms(cs) == TLCEval([k \in 1..Len(cs.clsAtoms) |-> SetOf(cs.clsAtoms[k])])
\* delta[s+1][a] = states reached from s on atom a: the dumped transitions (class-labelled)
\* re-indexed by atom through the class -> atoms table
ImplTab(A, ca, natoms) ==
  [ delta |-> TLCEval([s \in 1..A.n |->
                 LET O == SetOf(A.out[s]) IN
                 TLCEval([a \in 1..natoms |->
                    { e[2] : e \in { e \in O : e[1] + 1 \in DOMAIN ca /\ a \in ca[e[1] + 1] } }])]),
    cls   |-> UNION { { e[1] : e \in SetOf(A.out[s]) } : s \in 1..A.n },
    acc   |-> LET Acc == SetOf(A.acc) IN
              TLCEval([s \in 1..A.n |-> { r[2] : r \in { r \in Acc : r[1] = s - 1 } }]) ]

\* ---- position automaton of the source patterns, common numbering ----
RECURSIVE GP(_, _, _)
GP(pats, i, base) == IF i > Len(pats) THEN <<>>
                     ELSE LET A == Glu(Expand(pats[i].re), base) IN <<A>> \o GP(pats, i + 1, A.n)
SpecTab(cs) ==
  LET Gs == GP(cs.pats, 1, 0)
      NP == Len(cs.pats)
      N  == IF NP = 0 THEN 0 ELSE Gs[NP].n
      Fol == UNION { Gs[i].fol : i \in 1..NP }
      Lf  == UNION { Gs[i].lf : i \in 1..NP }
      lo(i) == IF i = 1 THEN 0 ELSE Gs[i - 1].n
  IN [ n      |-> N,
       first  |-> UNION { Gs[i].first : i \in 1..NP },
       last   |-> UNION { Gs[i].last : i \in 1..NP },
       follow |-> TLCEval([p \in 1..N |-> { r[2] : r \in { r \in Fol : r[1] = p } }]),
       ofAtom |-> TLCEval([a \in 1..cs.natoms |-> { r[1] : r \in { r \in Lf : InLeaf(r[2], a) } }]),
       tt     |-> TLCEval([p \in 1..N |-> cs.pats[CHOOSE i \in 1..NP : lo(i) < p /\ p <= Gs[i].n].tt]) ]

Tab == TLCEval([k \in 1..NC |->
         LET ca == ClsAtoms(Cases[k]) IN
         [ right |-> ImplTab(Cases[k].impl, ca, Cases[k].natoms),
           left  |-> IF Cases[k].kind = "min" THEN ImplTab(Cases[k].impl0, ca, Cases[k].natoms) ELSE <<>>,
           spec  |-> IF Cases[k].kind = "min" THEN <<>> ELSE SpecTab(Cases[k]) ]])

\* NOTE: no bound identifier of a constant table may share its name with a state variable;
\* TLC would then treat the table as state-dependent and re-evaluate it on every use.
VARIABLES pc, lhs, rhs, word
evars == <<pc, lhs, rhs, word>>
EView == <<pc, lhs, rhs>>

IsMin(k) == Cases[k].kind = "min"

\* one step of a dumped automaton (0-based state numbers) on atom a
StepImpl(T, S, a) == UNION { T.delta[s + 1][a] : s \in S }
AccImpl(T, S) == UNION { T.acc[s + 1] : s \in S }

\* one step of the position automaton; position 0 is the start
SpecFollow(Sp, S) == IF 0 \in S THEN Sp.first ELSE UNION { Sp.follow[p] : p \in S }
AccSpec(Sp, S) == { Sp.tt[p] : p \in (S \ {0}) \cap Sp.last }

AccL == IF IsMin(pc) THEN AccImpl(Tab[pc].left, lhs) ELSE AccSpec(Tab[pc].spec, lhs)
AccR == AccImpl(Tab[pc].right, rhs)

\* a language difference at the current product state
Bad == IF word = <<>> THEN (AccR # {} \/ (IsMin(pc) /\ AccL # AccR)) ELSE AccL # AccR

\* properties of the artefact itself, independent of any string
StaticBad(k) ==
  LET cs == Cases[k]
      usedCls == Tab[k].right.cls IN
  \/ \E id \in usedCls : id + 1 > cs.nclasses          \* a class that is not registered (C02)
  \/ (~IsMin(k) /\ \E r \in SetOf(cs.impl.acc) : r[2] \notin SetOf(cs.types))   \* foreign token type
  \/ (IsMin(k) /\ cs.impl.n > cs.impl0.n)              \* minimisation added states (C03)
  \/ cs.impl.n = 0

EInit == pc \in 1..NC /\ lhs = {0} /\ rhs = {0} /\ word = <<>>

ENext ==
  /\ ~Bad
  /\ LET F == IF IsMin(pc) THEN {} ELSE SpecFollow(Tab[pc].spec, lhs) IN    \* hoisted out of \E a
     \E a \in 1..Cases[pc].natoms :
       /\ lhs' = IF IsMin(pc) THEN StepImpl(Tab[pc].left, lhs, a) ELSE F \cap Tab[pc].spec.ofAtom[a]
       /\ rhs' = StepImpl(Tab[pc].right, rhs, a)
       /\ lhs' # {} \/ rhs' # {}
       /\ word' = Append(word, a)
       /\ UNCHANGED pc

\* reporting "invariants": always TRUE, print the disagreement (one line per product state)
Report ==
  /\ Bad => PrintT(<<"EQUIV-DIFF", ToJson([case |-> pc, word |-> word, accL |-> AccL, accR |-> AccR])>>)
  /\ (word = <<>> /\ StaticBad(pc)) => PrintT(<<"EQUIV-STATIC", ToJson([case |-> pc])>>)
=============================================================================
