------------------------------ MODULE CacheInd ------------------------------
(***************************************************************************)
(* An inductive invariant for the critical section of CacheConc, for ANY    *)
(* number of threads and ANY sequence of requests (Apalache, unbounded):    *)
(*   Init => IndInv      and      IndInv /\ Next => IndInv'                 *)
(* The core actions are those of CacheConc (AcquireK ... ReleaseK) with the *)
(* requested key and the thread chosen nondeterministically at every step   *)
(* (no programs: every request sequence is a behaviour).                    *)
(***************************************************************************)
EXTENDS Integers, FiniteSets

CONSTANTS
  \* @type: Set(Int);
  Threads,
  \* @type: Set(Str);
  Keys,
  \* @type: Set(Str);
  BadKeys

VARIABLES
  \* @type: Int;
  holder,
  \* @type: Int;
  depth,
  \* @type: Str;
  phase,
  \* @type: Str;
  cur,
  \* @type: Set(Str);
  store

ConstInit == Threads = {1, 2, 3, 4} /\ Keys = {"A", "B", "C", "bad1", "bad2"} /\ BadKeys = {"bad1", "bad2"}

Init == holder = 0 /\ depth = 0 /\ phase = "none" /\ cur = "" /\ store = {}

AcquireK(t, k) == /\ holder = 0
                  /\ holder' = t /\ depth' = 1 /\ phase' = "entered" /\ cur' = k /\ UNCHANGED store
HitK(t)     == /\ holder = t /\ phase = "entered" /\ cur \in store
               /\ phase' = "hit" /\ UNCHANGED <<holder, depth, cur, store>>
MissK(t)    == /\ holder = t /\ phase = "entered" /\ depth = 1 /\ cur \notin store
               /\ phase' = "miss" /\ UNCHANGED <<holder, depth, cur, store>>
InsertK(t)  == /\ holder = t /\ phase = "miss" /\ cur \notin BadKeys
               /\ store' = store \union {cur} /\ phase' = "inserted" /\ UNCHANGED <<holder, depth, cur>>
FailK(t)    == /\ holder = t /\ phase = "miss" /\ cur \in BadKeys
               /\ phase' = "failed" /\ UNCHANGED <<holder, depth, cur, store>>
ReenterK(t) == /\ holder = t /\ phase = "inserted" /\ depth = 1
               /\ depth' = 2 /\ phase' = "entered" /\ UNCHANGED <<holder, cur, store>>
ExitNestedK(t) == /\ holder = t /\ depth = 2 /\ phase = "hit"
                  /\ depth' = 1 /\ phase' = "hit" /\ UNCHANGED <<holder, cur, store>>
ReleaseK(t) == /\ holder = t /\ depth = 1 /\ phase \in {"hit", "failed"}
               /\ holder' = 0 /\ depth' = 0 /\ phase' = "none" /\ cur' = "" /\ UNCHANGED store

Next == \E t \in Threads :
          \/ \E k \in Keys : AcquireK(t, k)
          \/ HitK(t) \/ MissK(t) \/ InsertK(t) \/ FailK(t) \/ ReenterK(t) \/ ExitNestedK(t) \/ ReleaseK(t)
          \/ UNCHANGED <<holder, depth, phase, cur, store>>

\* the property (C13/C14 at the design level): nothing that fails to compile is ever cached,
\* what is cached was requested, at most one thread is inside
Safe == store \intersect BadKeys = {} /\ store \subseteq Keys

IndInv ==
  /\ holder \in Threads \union {0}
  /\ depth \in {0, 1, 2}
  /\ phase \in {"none", "entered", "hit", "miss", "inserted", "failed"}
  /\ cur \in Keys \union {""}
  /\ store \in SUBSET Keys
  /\ (holder = 0) <=> (depth = 0)
  /\ (holder = 0) <=> (phase = "none")
  /\ (holder # 0) => cur \in Keys
  /\ (phase \in {"inserted", "hit"}) => cur \in store
  /\ (depth = 2) => (phase \in {"entered", "hit"} /\ cur \in store)
  /\ (phase \in {"miss", "failed"}) => (depth = 1 /\ cur \notin store)
  /\ (phase = "failed") => cur \in BadKeys
  /\ Safe
=============================================================================
