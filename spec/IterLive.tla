------------------------------ MODULE IterLive ------------------------------
(***************************************************************************)
(* Layer B, liveness (C07 "scanning always makes progress"): the loop of    *)
(* FindMatchesImpl::next_match (find_matches_impl.rs) with ONE ACTION PER    *)
(* LOOP ITERATION instead of IterImpl!NextLoop's single recursive operator,  *)
(* so that "the call returns" and "the scan ends" become temporal            *)
(* properties TLC checks under weak fairness of the iterator's own steps:    *)
(*                                                                         *)
(*   CallReturns    : every call of next() returns (pc = "searching" leads   *)
(*                    to pc = "idle") - the loop cannot stall               *)
(*   ScanTerminates : an iterator that is only asked for the next token      *)
(*                    eventually reports the end of the input and stays      *)
(*                    there (<>[] cursor beyond the last character)          *)
(*   CursorMonotone : no step of next() moves the cursor backwards           *)
(*   StepRefines    : a returning step delivers what IterImpl!NextLoop (and   *)
(*                    through NextRefines the user-level machine) delivers    *)
(*                                                                         *)
(* The switches are deliberately broken variants (TLC MUST refute them):     *)
(*   SkipConsumes = FALSE  : the branch for a character no pattern matches   *)
(*                           looks at the character (char_indices.clone()    *)
(*                           .next()) but does not consume it: the loop      *)
(*                           stalls, CallReturns is violated                *)
(*   AdvanceOnSwitch = FALSE : a token that switches the mode is delivered    *)
(*                           without moving the cursor behind it ("re-scan   *)
(*                           in the new mode"): every call returns, but two  *)
(*                           modes that switch into each other never reach   *)
(*                           the end, ScanTerminates is violated            *)
(* The binding to the code: a call of the real iterator that does not return *)
(* is reported by the harness watchdog (exec.rs) as a C07 violation; the     *)
(* token streams themselves are bound by the C07 G and T legs.               *)
(***************************************************************************)
EXTENDS IterImpl

CONSTANTS SkipConsumes, AdvanceOnSwitch

VARIABLES pc,     \* "idle": between calls; "searching": inside next_match's loop
          md,     \* the iterator's current mode
          ret,    \* what the last returning step delivered (a token or NoTok)
          atcall  \* [impl, md] at the last Call (history variable for StepRefines)
lvars == <<scanners, iters, cache, impl, pc, md, ret, atcall>>

CfgOf == iters[1].cfg
CurMode == ModeOf(CfgOf, md)
AtEnd == impl.nxt > LenW(K)
BestHere == IF AtEnd THEN {} ELSE Best(CurMode, W(K), impl.nxt)

LInit == IInit /\ pc = "idle" /\ md = 0 /\ ret = NoTok /\ atcall = [impl |-> NewImpl, md |-> 0]

\* the user calls next()
Call == /\ pc = "idle"
        /\ pc' = "searching"
        /\ atcall' = [impl |-> impl, md |-> md]
        /\ UNCHANGED <<scanners, iters, cache, impl, md, ret>>

\* find_from found a match at the cursor: advance_beyond_match, possible mode switch, return Some
Found == /\ pc = "searching" /\ BestHere # {}
         /\ \E c \in BestHere :
              LET t == TokOf(CfgOf, md, K, impl.nxt, c)
                  sw == HasTrans(CurMode, t[1]) IN
              /\ impl' = IF sw /\ ~AdvanceOnSwitch THEN impl ELSE AdvanceRel(impl, K, Off(K, c[2]) - impl.off)
              /\ md' = IF sw THEN TransTarget(CurMode, t[1]) ELSE md
              /\ ret' = t
         /\ pc' = "idle"
         /\ UNCHANGED <<scanners, iters, cache, atcall>>

\* nothing matches at the cursor: record the line offset, step over one character, go round again
Skip == /\ pc = "searching" /\ ~AtEnd /\ BestHere = {}
        /\ impl' = Record(IF SkipConsumes THEN [impl EXCEPT !.nxt = @ + 1] ELSE impl, Off(K, impl.nxt), NL(K, impl.nxt))
        /\ UNCHANGED <<scanners, iters, cache, pc, md, ret, atcall>>

\* char_indices is exhausted: record the last line, return None
Exhaust == /\ pc = "searching" /\ AtEnd
           /\ impl' = Record(impl, ByteLen(K), FALSE)
           /\ ret' = NoTok
           /\ pc' = "idle"
           /\ UNCHANGED <<scanners, iters, cache, md, atcall>>

IterStep == Found \/ Skip \/ Exhaust
LNext == Call \/ IterStep
\* the iterator's own steps are fair (the code runs); the user keeps calling (ScanTerminates only)
LSpec == LInit /\ [][LNext]_lvars /\ WF_lvars(IterStep) /\ WF_lvars(Call)

CallReturns == (pc = "searching") ~> (pc = "idle")
ScanTerminates == <>[](AtEnd)
CursorMonotone == [][impl'.nxt >= impl.nxt]_lvars
\* between two calls the loop, run to completion by IterImpl!NextLoop from the state at the call,
\* delivers the same token and leaves the same bookkeeping: the small-step loop is the big-step one
StepRefines == (pc = "idle" /\ SkipConsumes /\ AdvanceOnSwitch) =>
                 \/ atcall = [impl |-> impl, md |-> md]        \* no call since
                 \/ \E r \in NextLoop(atcall.impl, K, atcall.md) : r.tok = ret /\ r.st = impl
=============================================================================
