--------------------------- MODULE MC_CacheConc ---------------------------
(* Model-checking instance of CacheConc: 3 threads, each building one or two of three        *)
(* configurations (two that compile, one that does not), all programs, all interleavings.    *)
EXTENDS CacheConc
MCThreads == 1..3
MCKeys == {"A", "B", "bad"}
MCBad == {"bad"}
Seq2(S) == { <<a>> : a \in S } \cup { <<a, b>> : a \in S, b \in S }
MCProgSpace == [MCThreads -> Seq2(MCKeys)]
=============================================================================
