----------------------------- MODULE Trace_Api -----------------------------
(***************************************************************************)
(* Trace validation (binding direction 2, code -> spec).                   *)
(*                                                                         *)
(* Events is the NDJSON log the harness recorded while driving the REAL    *)
(* code: one event per public call, logged at its return, with arguments   *)
(* and complete result.  The log is accepted iff it is a behaviour of      *)
(* ScannerApi: every event must be an enabled step of the corresponding    *)
(* action WITH THE LOGGED RESULT.  Because every event carries its result  *)
(* the search is linear in the length of the log.                          *)
(*                                                                         *)
(* World (generated per run) defines Cfgs, Inputs and Events from the      *)
(* files named by the environment variables VERIF_TABLES and VERIF_TRACE.  *)
(* A "reset" event starts a new, independent execution (many traces are    *)
(* validated by one TLC run); a "panic" event matches no action: a panic   *)
(* inside scnr is never a behaviour of the specification (C05, C07).       *)
(***************************************************************************)
EXTENDS ScannerApi

VARIABLE pos          \* index of the next event to explain

tvars == <<scanners, iters, cache, pos>>

TInit == Init /\ pos = 1

HasIt(e) == "it" \in DOMAIN e
\* current_mode() is read after every call on an iterator and must be the specified mode
ModeOK(e) == ("mode" \in DOMAIN e) => (iters'[e.it].mode = e.mode)

Step(e) ==
  CASE e.op = "reset"     -> scanners' = <<>> /\ iters' = <<>> /\ cache' = {}
    [] e.op = "build"     -> Build(e.cfg, e.cached, e.ok)
    \* a thread obtains a reference to a scanner another thread built from configuration e.cfg (C14)
    [] e.op = "share"     -> Build(e.cfg, FALSE, TRUE)
    [] e.op = "newiter"   -> NewIter(e.sc, e.inp, e.off)
    \* the scan iterator e.it has just been validated for was repeated e.rounds times with fresh
    \* iterators on the same scanner and input: the token stream is a function of configuration
    \* and input, so none of the repetitions may differ (C14: scans overlapping in time)
    [] e.op = "rescan"    -> e.differing = 0 /\ e.it \in DOMAIN iters /\ UNCHANGED <<scanners, iters, cache>>
    [] e.op = "next"      -> DoNext(e.it, e.res) /\ ModeOK(e)
    [] e.op = "nextpos"   -> DoNextPos(e.it, e.res, e.sp, e.ep) /\ ModeOK(e)
    [] e.op = "peek"      -> DoPeek(e.it, e.n, [kind |-> e.kind, toks |-> e.toks, target |-> e.target]) /\ ModeOK(e)
    [] e.op = "setmode"   -> DoSetMode(e.it, e.m) /\ ModeOK(e)
    [] e.op = "scsetmode" -> DoScannerSetMode(e.sc, e.m) /\ e.scmode = e.m
    [] e.op = "setoffset" -> DoSetOffset(e.it, e.o) /\ ModeOK(e)
    [] e.op = "advance"   -> DoAdvanceTo(e.it, e.p) /\ ModeOK(e)
    [] e.op = "position"  -> DoPosition(e.it, e.o, e.res) /\ ModeOK(e)
    [] e.op = "modename"  -> DoModeName(e.it, e.k, e.res)
    [] OTHER              -> FALSE        \* "panic" and anything unknown

TNext == pos <= Len(Events) /\ Step(Events[pos]) /\ pos' = pos + 1

TSpec == TInit /\ [][TNext]_tvars

\* accepted iff every event was explained; otherwise name the first unexplained event
TraceAccepted ==
  LET d == TLCGet("stats").diameter IN
  IF d - 1 = Len(Events) THEN PrintT(<<"TRACE-ACCEPTED", Len(Events)>>)
  ELSE PrintT(<<"TRACE-REJECTED-AT", d>>)

TInv == WellFormed
=============================================================================
