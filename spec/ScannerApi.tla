----------------------------- MODULE ScannerApi -----------------------------
(***************************************************************************)
(* The user-level state machine of scnr: what a user of the public API may *)
(* rely on.  One action per public call; every action takes the call's     *)
(* RESULT as a parameter and is enabled exactly for the admissible results *)
(* so that the same definitions serve                                      *)
(*   - the behaviour generators (Gen_*: \E res : Action(.., res)), whose   *)
(*     behaviours are replayed into the real code, and                     *)
(*   - the trace validator (Trace_Api: Action(.., logged result)).         *)
(*                                                                         *)
(* Cfgs   : sequence of configurations  [modes |-> <<mode, ...>>]          *)
(* Inputs : sequence of inputs [w |-> atoms, off |-> byte offset of every  *)
(*          symbol boundary (Len(w)+1 entries), nl |-> is symbol k a \n]   *)
(* The state refers to both by index only.                                 *)
(*                                                                         *)
(* Tokens are tuples <<token type, start byte, end byte>>; "no token" is   *)
(* <<>>.  Positions are tuples <<line, column>>.                           *)
(***************************************************************************)
EXTENDS Tokenizer, World   \* World defines Cfgs and Inputs (one World module per check)

VARIABLES
  scanners,  \* sequence of [cfg |-> index, mode |-> scanner-level mode]
  iters,     \* sequence of iterator states, see NewIterState
  cache      \* set of configuration indices compiled successfully through build()

apiVars == <<scanners, iters, cache>>

-----------------------------------------------------------------------------
\* look-ups
ModeOf(ci, m)  == Cfgs[ci].modes[m + 1]
NModes(ci)     == Len(Cfgs[ci].modes)
W(k)           == Inputs[k].w
LenW(k)        == Len(Inputs[k].w)
Off(k, i)      == Inputs[k].off[i]
ByteLen(k)     == Inputs[k].off[LenW(k) + 1]
IsBoundary(k, o) == \E i \in 1..(LenW(k) + 1) : Inputs[k].off[i] = o
IdxOf(k, o)    == CHOOSE i \in 1..(LenW(k) + 1) : Inputs[k].off[i] = o
Clamp(k, o)    == IF o > ByteLen(k) THEN ByteLen(k) ELSE o
Max2(a, b)     == IF a >= b THEN a ELSE b

TokOf(ci, m, k, i, c) == << ModeOf(ci, m).pats[c[1]].tt, Off(k, i), Off(k, c[2]) >>
NoTok == <<>>

\* a configuration builds iff no pattern or lookahead is syntactically wrong or uses an
\* unsupported construct (the harness/generator marks those nodes: "synerr", "unsup"; C13, C15).
\* A node "open" stands for a construct whose support the documentation leaves open (a Unicode
\* class name scnr lists but the README does not promise): either verdict is admissible.
RECURSIVE Supported(_), HasOpen(_)
Supported(re) ==
  CASE re.op \in {"eps", "cls", "open"} -> TRUE
    [] re.op \in {"cat", "alt"} -> \A k \in DOMAIN re.xs : Supported(re.xs[k])
    [] re.op \in {"star", "plus", "opt", "rep"} -> Supported(re.l)
    [] OTHER -> FALSE          \* "unsup", "synerr"
HasOpen(re) ==
  CASE re.op = "open" -> TRUE
    [] re.op \in {"cat", "alt"} -> \E k \in DOMAIN re.xs : HasOpen(re.xs[k])
    [] re.op \in {"star", "plus", "opt", "rep"} -> HasOpen(re.l)
    [] OTHER -> FALSE
PatBuildable(p) == Supported(p.re) /\ (p.la.kind # "none" => Supported(p.la.re))
PatOpen(p) == HasOpen(p.re) \/ (p.la.kind # "none" /\ HasOpen(p.la.re))
AllPats(ci) == UNION { { Cfgs[ci].modes[m].pats[p] : p \in DOMAIN Cfgs[ci].modes[m].pats } : m \in DOMAIN Cfgs[ci].modes }
Buildable(ci) == \A p \in AllPats(ci) : PatBuildable(p)
\* the admissible results of build(): must fail / must succeed / open
\* a configuration flagged `large` (more than 2^16 automaton states, C17) may also be rejected
BuildVerdicts(ci) == IF "large" \in DOMAIN Cfgs[ci] THEN {TRUE, FALSE}
                     ELSE IF ~Buildable(ci) THEN {FALSE}
                     ELSE IF \E p \in AllPats(ci) : PatOpen(p) THEN {TRUE, FALSE} ELSE {TRUE}

-----------------------------------------------------------------------------
\* line / column (C09)
LineStartIdx(k, i) ==   \* index of the first symbol of the line that position i is on
  LET B == { j \in 1..(i - 1) : Inputs[k].nl[j] } IN IF B = {} THEN 1 ELSE MaxOf(B) + 1
LineNo(k, i) == 1 + Cardinality({ j \in 1..(i - 1) : Inputs[k].nl[j] })
TruePos(k, o) == LET i == IdxOf(k, o) IN << LineNo(k, i), o - Off(k, LineStartIdx(k, i)) + 1 >>
\* right after a line break "previous line, column after the break" is admissible as well
PosAdm(k, o) ==
  LET i == IdxOf(k, o) IN
  {TruePos(k, o)} \cup
  (IF i > 1 /\ Inputs[k].nl[i - 1]
     THEN { << LineNo(k, i) - 1, o - Off(k, LineStartIdx(k, i - 1)) + 1 >> } ELSE {})

-----------------------------------------------------------------------------
\* iterator states
NewIterState(s, k, o) ==
  LET i == IdxOf(k, Clamp(k, o)) IN
  [ sc     |-> s,                      \* the scanner it was created from
    cfg    |-> scanners[s].cfg,
    inp    |-> k,
    cur    |-> i,                      \* symbol index where the next scan starts
    mode   |-> 0,                      \* C06: always mode 0, whatever the scanner's mode
    hw     |-> 1,                      \* high-water mark of consumed input (symbol index)
    posok  |-> i = 1,                  \* line bookkeeping is promised only without forward jumps
    peeked |-> {} ]                    \* ends of the matches of the last peek (for AdvanceTo)

\* the outcomes of one next(): token (or none), new cursor, new mode
NextOutcomes(it) ==
  LET m == ModeOf(it.cfg, it.mode)
      w == W(it.inp)
      fb == FirstBest(m, w, it.cur)
      i == fb[1]
  IN  IF i > Len(w)
        THEN { [tok |-> NoTok, cur |-> Len(w) + 1, mode |-> it.mode] }
        ELSE { LET t == TokOf(it.cfg, it.mode, it.inp, i, c) IN
               [tok |-> t, cur |-> c[2],
                mode |-> IF HasTrans(m, t[1]) THEN TransTarget(m, t[1]) ELSE it.mode]
               : c \in fb[2] }

\* the token lists peek_n(n) may return: what next() would return with the mode held
\* fixed, cut after a token that triggers a switch, after n tokens, at the end of input
RECURSIVE PeekPaths(_, _, _, _, _)
PeekPaths(ci, md, k, cur, n) ==
  IF n = 0 THEN { [toks |-> <<>>, sw |-> -1] }
  ELSE LET m == ModeOf(ci, md)
           w == W(k)
           fb == FirstBest(m, w, cur)
           i == fb[1]
       IN  IF i > Len(w) THEN { [toks |-> <<>>, sw |-> -1] }
           ELSE UNION {
                  LET t == TokOf(ci, md, k, i, c) IN
                  IF HasTrans(m, t[1])
                    THEN { [toks |-> <<t>>, sw |-> TransTarget(m, t[1])] }
                    ELSE { [toks |-> <<t>> \o r.toks, sw |-> r.sw] : r \in PeekPaths(ci, md, k, c[2], n - 1) }
                  : c \in fb[2] }

\* classification; where the wording of C11 leaves two readings open both are admissible
PeekKinds(r, n) ==
  IF r.sw # -1 THEN (IF Len(r.toks) = n THEN {"S", "M"} ELSE {"S"})
  ELSE IF Len(r.toks) = n THEN (IF n = 0 THEN {"M", "N"} ELSE {"M"})
  ELSE IF Len(r.toks) = 0 THEN {"N", "E"}
  ELSE {"E"}

PeekResults(it, n) ==
  UNION { { [kind |-> kd, toks |-> r.toks, target |-> IF kd = "S" THEN r.sw ELSE -1]
            : kd \in PeekKinds(r, n) }
          : r \in PeekPaths(it.cfg, it.mode, it.inp, it.cur, n) }

\* The same set, as a CHECK of a given result that follows the given token list instead of
\* enumerating every admissible list: with set-valued Best the number of lists is exponential in
\* their length (peek_n(usize::MAX) on a long input), the check is linear.  PeekCheck yields the
\* admissible `sw` values of a path that consists of exactly toks[j..]; the empty set if there is
\* none.  PeekCheckLemma (IterImpl, leg M-IterImpl-peek of C11) has TLC evaluate that
\* PeekResultOK accepts exactly the members of PeekResults, on every state of the small worlds.
RECURSIVE PeekCheck(_, _, _, _, _, _, _)
PeekCheck(ci, md, k, cur, n, toks, j) ==
  LET m == ModeOf(ci, md)
      w == W(k)
      fb == FirstBest(m, w, cur)
      i == fb[1]
  IN  IF j > Len(toks)
        THEN (IF n = 0 \/ i > Len(w) THEN {-1} ELSE {})     \* the list may end here: n tokens, or the input is exhausted
      ELSE IF n = 0 \/ i > Len(w) THEN {}                    \* it goes on, but no further token is admissible
      ELSE UNION { LET t == TokOf(ci, md, k, i, c) IN
                   IF t # toks[j] THEN {}
                   ELSE IF HasTrans(m, t[1]) THEN (IF j = Len(toks) THEN {TransTarget(m, t[1])} ELSE {})
                   ELSE PeekCheck(ci, md, k, c[2], n - 1, toks, j + 1)
                   : c \in fb[2] }
PeekResultOK(it, n, res) ==
  \E sw \in PeekCheck(it.cfg, it.mode, it.inp, it.cur, n, res.toks, 1) :
    /\ res.kind \in PeekKinds([toks |-> res.toks, sw |-> sw], n)
    /\ res.target = (IF res.kind = "S" THEN sw ELSE -1)

-----------------------------------------------------------------------------
Init == scanners = <<>> /\ iters = <<>> /\ cache = {}

\* build() / build_uncached(): ok = TRUE iff a scanner is returned
Build(ci, cached, ok) ==
  /\ ok \in BuildVerdicts(ci)
  /\ scanners' = IF ok THEN Append(scanners, [cfg |-> ci, mode |-> 0]) ELSE scanners
  /\ cache' = IF ok /\ cached THEN cache \cup {ci} ELSE cache
  /\ UNCHANGED iters

\* find_iter(input) [.with_offset(o)]
NewIter(s, k, o) ==
  /\ s \in DOMAIN scanners
  /\ o > ByteLen(k) \/ IsBoundary(k, o)
  /\ iters' = Append(iters, NewIterState(s, k, o))
  /\ UNCHANGED <<scanners, cache>>

SetIter(h, st) == iters' = [iters EXCEPT ![h] = st] /\ UNCHANGED <<scanners, cache>>

\* next()
DoNext(h, tok) ==
  /\ h \in DOMAIN iters
  /\ \E o \in NextOutcomes(iters[h]) :
       /\ o.tok = tok
       /\ SetIter(h, [iters[h] EXCEPT !.cur = o.cur, !.mode = o.mode,
                                      !.hw = Max2(@, o.cur), !.peeked = {}])

\* next() on a WithPositions iterator: start position strict, end position PosAdm
DoNextPos(h, tok, sp, ep) ==
  /\ DoNext(h, tok)
  /\ (tok # NoTok /\ iters[h].posok) =>
        /\ sp = TruePos(iters[h].inp, tok[2])
        /\ ep \in PosAdm(iters[h].inp, tok[3])

\* peek_n(n): the observable state (cur, mode, hw) does not change (C11)
DoPeek(h, n, res) ==
  /\ h \in DOMAIN iters
  /\ PeekResultOK(iters[h], n, res)          \* i.e. res \in PeekResults(iters[h], n)
  /\ SetIter(h, [iters[h] EXCEPT !.peeked = { res.toks[j][3] : j \in DOMAIN res.toks }])

\* set_mode on an iterator
DoSetMode(h, m) ==
  /\ h \in DOMAIN iters
  /\ m \in 0..(NModes(iters[h].cfg) - 1)
  /\ SetIter(h, [iters[h] EXCEPT !.mode = m])

\* set_mode on the Scanner: affects no iterator, existing or future (C06, C12)
DoScannerSetMode(s, m) ==
  /\ s \in DOMAIN scanners
  /\ scanners' = [scanners EXCEPT ![s].mode = m]
  /\ UNCHANGED <<iters, cache>>

\* set_offset(o), o on a character boundary or beyond the input
DoSetOffset(h, o) ==
  /\ h \in DOMAIN iters
  /\ LET k == iters[h].inp IN
     /\ o > ByteLen(k) \/ IsBoundary(k, o)
     /\ LET i == IdxOf(k, Clamp(k, o)) IN
        SetIter(h, [iters[h] EXCEPT !.cur = i, !.peeked = {},
                                    !.posok = @ /\ i <= iters[h].hw])

\* advance_to(p), p the end of a match of the preceding peek; its return value is not
\* constrained (no property mentions it)
DoAdvanceTo(h, p) ==
  /\ h \in DOMAIN iters
  /\ p \in iters[h].peeked
  /\ LET i == IdxOf(iters[h].inp, p) IN
     SetIter(h, [iters[h] EXCEPT !.cur = i, !.hw = Max2(@, i), !.peeked = {}])

\* position(o): constrained for offsets already scanned
DoPosition(h, o, res) ==
  /\ h \in DOMAIN iters
  /\ LET k == iters[h].inp IN
       (iters[h].posok /\ IsBoundary(k, o) /\ IdxOf(k, o) <= iters[h].hw) => res \in PosAdm(k, o)
  /\ UNCHANGED apiVars

\* current_mode() / mode_name(k) on an iterator or a scanner; None is <<>>, Some(x) is <<x>>
DoCurrentMode(h, res) == h \in DOMAIN iters /\ res = iters[h].mode /\ UNCHANGED apiVars
DoScannerCurrentMode(s, res) == s \in DOMAIN scanners /\ res = scanners[s].mode /\ UNCHANGED apiVars
ModeNameOf(ci, k) == IF k < NModes(ci) THEN << Cfgs[ci].modes[k + 1].name >> ELSE <<>>
DoModeName(h, k, res) == h \in DOMAIN iters /\ res = ModeNameOf(iters[h].cfg, k) /\ UNCHANGED apiVars

-----------------------------------------------------------------------------
(* Invariants of the user-level machine (C07).  They hold by construction of the     *)
(* actions above; TLC checks them in every explored state so that a change to the    *)
(* specification that breaks them is noticed, and the trace validator inherits them. *)
IterWellFormed(it) ==
  /\ it.cur \in 1..(LenW(it.inp) + 1)
  /\ it.hw \in 1..(LenW(it.inp) + 1)
  /\ it.mode \in 0..(NModes(it.cfg) - 1)
WellFormed == \A h \in DOMAIN iters : IterWellFormed(iters[h])

\* every token next() may return is non-empty, inside the input, on symbol boundaries and
\* starts at or after the cursor; "no token" only with the cursor moved to the end
TokenWellFormed(it, o) ==
  IF o.tok = NoTok THEN o.cur = LenW(it.inp) + 1
  ELSE /\ o.tok[2] < o.tok[3]
       /\ o.tok[2] >= Off(it.inp, it.cur)
       /\ o.tok[3] <= ByteLen(it.inp)
       /\ IsBoundary(it.inp, o.tok[2]) /\ IsBoundary(it.inp, o.tok[3])
       /\ o.cur > it.cur
Progress == \A h \in DOMAIN iters : \A o \in NextOutcomes(iters[h]) : TokenWellFormed(iters[h], o)
=============================================================================
