---------------------------- MODULE Trace_Cache ----------------------------
(* Trace validation of the scanner-cache event log recorded by the verif_hooks inside       *)
(* ScannerCache::get (C14): every event must be a step of CacheConc's critical-section      *)
(* actions.  The harness interns keys and threads as small integers and marks on every      *)
(* event whether the build of that key returned Err (bad).                                  *)
EXTENDS CacheConc

\* ---- trace validation of the hook's event log -----------------------------------------------
\* CEvents: [seq, thread, kind, key, entries] in the order of the under-lock counter; keys and
\* threads are small integers (interned by the harness); TBad = keys whose build returned Err.
CEvents == TLCEval(IF "VERIF_CACHE_TRACE" \in DOMAIN IOEnv THEN ndJsonDeserialize(IOEnv.VERIF_CACHE_TRACE) ELSE <<>>)
VARIABLE ce      \* index of the next event
tcvars == <<holder, depth, phase, cur, store, prog, ip, results, ce>>
TCInit == CoreInit /\ prog = <<>> /\ ip = <<>> /\ results = <<>> /\ ce = 1
EvStep(e) ==
  LET t == e.thread IN
  CASE e.kind = "enter"  -> (AcquireK(t, e.key) \/ (ReenterK(t) /\ e.key = cur)) /\ e.entries = Cardinality(store)
    [] e.kind = "hit"    -> HitK(t) /\ e.key = cur /\ e.entries = Cardinality(store)
    [] e.kind = "miss"   -> MissK(t) /\ e.key = cur /\ e.entries = Cardinality(store)
    [] e.kind = "insert" -> InsertK(t, e.bad) /\ e.key = cur /\ e.entries = Cardinality(store')
    \* "exit" closes the nested call, or ends the section after a hit or a failed compilation
    [] e.kind = "exit"   -> e.key = cur /\ (ExitNestedK(t) \/ ReleaseK(t) \/ FailExitK(t, e.bad))
    [] OTHER -> FALSE
TCNext == ce <= Len(CEvents) /\ EvStep(CEvents[ce]) /\ ce' = ce + 1 /\ UNCHANGED <<prog, ip, results>>
CacheTraceAccepted ==
  LET d == TLCGet("stats").diameter IN
  IF d - 1 = Len(CEvents) THEN PrintT(<<"TRACE-ACCEPTED", Len(CEvents)>>) ELSE PrintT(<<"TRACE-REJECTED-AT", d>>)

=============================================================================
