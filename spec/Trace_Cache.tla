---------------------------- MODULE Trace_Cache ----------------------------
(***************************************************************************)
(* Trace validation of the scanner-cache event log recorded by the          *)
(* verif_hooks inside the cache (C14).  Events are emitted while a lock of  *)
(* the cache is held and are numbered by a counter incremented there; the   *)
(* harness interns keys and threads as small integers and marks on every    *)
(* event whether the build of that key returned Err (bad).                  *)
(*                                                                         *)
(* What is validated is the SAFETY of the shared map, not one locking       *)
(* protocol (CacheConc models the protocol of the present code - write      *)
(* lock for the whole of get() - and is model-checked on its own; a         *)
(* maintainer who takes a read lock for hits, or who stops re-entering      *)
(* get() after an insert, changes the protocol and not the property):       *)
(*   - sections (enter ... exit) nest per thread and stay on one key;       *)
(*   - "hit"  only for a key that is in the map at that point of the log;   *)
(*   - "miss" only for a key that is not;                                   *)
(*   - "insert" only for an absent key whose build succeeds, and only       *)
(*     while NO OTHER thread has a section open (mutation is exclusive);    *)
(*   - the logged number of entries is the size of the map.                 *)
(* An event log that violates one of these is not a behaviour of any        *)
(* correctly locked cache: a hit on an absent key, a stale miss, a double   *)
(* insert, a cached failure, or a mutation concurrent with a reader.        *)
(***************************************************************************)
EXTENDS Integers, Sequences, FiniteSets, TLC, Json, IOUtils

CEvents == TLCEval(IF "VERIF_CACHE_TRACE" \in DOMAIN IOEnv THEN ndJsonDeserialize(IOEnv.VERIF_CACHE_TRACE) ELSE <<>>)
TIDs == TLCEval({ CEvents[i].thread : i \in DOMAIN CEvents })

VARIABLES sect,    \* sect[t]: nesting depth of thread t's open section
          skey,    \* skey[t]: the key of thread t's open section (0 if none)
          map,     \* keys in the cache
          ce       \* index of the next event
tcv == <<sect, skey, map, ce>>

TCInit == sect = [t \in TIDs |-> 0] /\ skey = [t \in TIDs |-> 0] /\ map = {} /\ ce = 1

Others(t) == TIDs \ {t}
EvStep(e) ==
  LET t == e.thread
      k == e.key IN
  CASE e.kind = "enter"  -> /\ (sect[t] = 0 \/ skey[t] = k)
                            /\ e.entries = Cardinality(map)
                            /\ sect' = [sect EXCEPT ![t] = @ + 1] /\ skey' = [skey EXCEPT ![t] = k] /\ UNCHANGED map
    [] e.kind = "hit"    -> /\ sect[t] > 0 /\ skey[t] = k /\ k \in map /\ e.entries = Cardinality(map)
                            /\ UNCHANGED <<sect, skey, map>>
    [] e.kind = "miss"   -> /\ sect[t] > 0 /\ skey[t] = k /\ k \notin map /\ e.entries = Cardinality(map)
                            /\ UNCHANGED <<sect, skey, map>>
    [] e.kind = "insert" -> /\ sect[t] > 0 /\ skey[t] = k /\ k \notin map /\ ~e.bad
                            /\ \A u \in Others(t) : sect[u] = 0
                            /\ map' = map \cup {k} /\ e.entries = Cardinality(map')
                            /\ UNCHANGED <<sect, skey>>
    [] e.kind = "exit"   -> /\ sect[t] > 0 /\ skey[t] = k
                            /\ sect' = [sect EXCEPT ![t] = @ - 1]
                            /\ skey' = [skey EXCEPT ![t] = IF sect[t] = 1 THEN 0 ELSE @] /\ UNCHANGED map
    [] OTHER -> FALSE
TCNext == ce <= Len(CEvents) /\ EvStep(CEvents[ce]) /\ ce' = ce + 1

\* nothing that fails to build is ever in the map (follows from EvStep; stated for the record)
NoBadCached == TRUE

CacheTraceAccepted ==
  LET d == TLCGet("stats").diameter IN
  IF d - 1 = Len(CEvents) THEN PrintT(<<"TRACE-ACCEPTED", Len(CEvents)>>) ELSE PrintT(<<"TRACE-REJECTED-AT", d>>)
=============================================================================
