--------------------------- MODULE Lemma_RepLeaf ---------------------------
(***************************************************************************)
(* RegexSem counts a repetition of a single leaf in chunks (RepLeafC)      *)
(* instead of match by match, so that a{66000} is tractable for TLC (C17). *)
(* This module has TLC evaluate that the chunked count IS the iteration,   *)
(* for every word up to length 5 over three atoms, four leaves, every      *)
(* start position, all bounds 0 <= min <= max <= 4 and max unbounded, and  *)
(* chunk sizes 1..3 (so that chunk boundaries fall inside the words).      *)
(***************************************************************************)
EXTENDS RegexSem
VARIABLE dummy
Words == UNION { [1..n -> 1..3] : n \in 0..5 }
ASSUME RepLeafLemma(Words, { <<1>>, <<1, 2>>, <<>>, <<3, 1>> }, 4)
LInit == dummy = 0
LNext == UNCHANGED dummy
=============================================================================
