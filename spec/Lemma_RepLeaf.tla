--------------------------- MODULE Lemma_RepLeaf ---------------------------
(***************************************************************************)
(* RegexSem evaluates a counted repetition of a single leaf in closed form *)
(* (RepLeaf) so that a{66000} is tractable for TLC (C17).  This module has *)
(* TLC evaluate that the closed form IS the iteration, for every word up   *)
(* to length 5 over three atoms, four leaves, every start position and all *)
(* bounds 0 <= min <= max <= 4 and max unbounded.                          *)
(***************************************************************************)
EXTENDS RegexSem
VARIABLE dummy
Words == UNION { [1..n -> 1..3] : n \in 0..5 }
ASSUME RepLeafLemma(Words, { <<1>>, <<1, 2>>, <<>>, <<3, 1>> }, 4)
LInit == dummy = 0
LNext == UNCHANGED dummy
=============================================================================
