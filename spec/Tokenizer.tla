----------------------------- MODULE Tokenizer -----------------------------
(***************************************************************************)
(* The admissible next token of a scanner mode at a position (C01, C04,    *)
(* C05).                                                                   *)
(*                                                                         *)
(* A mode is  [name |-> STRING, pats |-> <<pattern, ...>>, trans |-> <<<<tt, target>>, ...>>]  *)
(* a pattern  [re |-> ast, tt |-> token type, la |-> lookahead]            *)
(* lookahead  [kind |-> "none"]  |  [kind |-> "pos" | "neg", re |-> ast]   *)
(* The order of pats is the priority order.  Modes are numbered from 0 in  *)
(* the API; cfg.modes[m + 1] is mode m.                                    *)
(***************************************************************************)
EXTENDS RegexSem

\* MaxOf, MinOf, LookEnds, LookOK, Cand, Ext, Best, HasTrans, TransTarget: module TokenizerCore,
\* instantiated with RegexSem's Ends
INSTANCE TokenizerCore

\* first position >= i with a candidate together with its admissible tokens: <<position, Best>>;
\* <<Len(w)+1, {}>> if there is none (Best is empty exactly when there is no candidate)
RECURSIVE FirstBest(_, _, _)
FirstBest(m, w, i) ==
  IF i > Len(w) THEN << Len(w) + 1, {} >>
  ELSE LET B == Best(m, w, i) IN IF B # {} THEN << i, B >> ELSE FirstBest(m, w, i + 1)

\* first position >= i with a candidate, or Len(w)+1 if there is none
RECURSIVE FirstTokenPos(_, _, _)
FirstTokenPos(m, w, i) ==
  IF i > Len(w) THEN Len(w) + 1
  ELSE IF Cand(m, w, i) # {} THEN i
  ELSE FirstTokenPos(m, w, i + 1)
=============================================================================
