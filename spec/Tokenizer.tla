----------------------------- MODULE Tokenizer -----------------------------
(***************************************************************************)
(* The admissible next token of a scanner mode at a position (C01, C04,    *)
(* C05).                                                                   *)
(*                                                                         *)
(* A mode is  [name |-> STRING, pats |-> <<pattern, ...>>, trans |-> <<<<tt, target>>, ...>>]  *)
(* a pattern  [re |-> ast, tt |-> token type, la |-> lookahead]            *)
(* lookahead  [kind |-> "none"]  |  [kind |-> "pos" | "neg", re |-> ast]   *)
(* The order of pats is the priority order.  Modes are numbered from 0 in  *)
(* the API; cfg.modes[m + 1] is mode m.                                    *)
(***************************************************************************)
EXTENDS RegexSem

MaxOf(S) == CHOOSE x \in S : \A y \in S : y <= x
MinOf(S) == CHOOSE x \in S : \A y \in S : x <= y

\* non-empty texts starting at e that the lookahead pattern matches
LookEnds(p, w, e) == { f \in Ends(p.la.re, w, e) : f > e }

\* the lookahead condition of pattern p for a token ending at e
LookOK(p, w, e) ==
  CASE p.la.kind = "none" -> TRUE
    [] p.la.kind = "pos"  -> LookEnds(p, w, e) # {}
    [] p.la.kind = "neg"  -> LookEnds(p, w, e) = {}

\* candidates: <<pattern index, end>> with a non-empty match and satisfied lookahead
Cand(m, w, i) ==
  { c \in UNION { { <<p, e>> : e \in { e \in Ends(m.pats[p].re, w, i) : e > i } } : p \in DOMAIN m.pats } :
      LookOK(m.pats[c[1]], w, c[2]) }

\* extent of a candidate, as the position where its trailing context ends
Ext(m, w, c) ==
  IF m.pats[c[1]].la.kind = "pos" THEN MaxOf(LookEnds(m.pats[c[1]], w, c[2])) ELSE c[2]

\* the admissible tokens: maximal extent, then the pattern listed first.  A SET: two
\* candidates of the same pattern with equal extent are both admissible (C05 only orders
\* candidates of different patterns).  Without lookaheads it is a singleton.
Best(m, w, i) ==
  LET C == Cand(m, w, i) IN
  IF C = {} THEN {}
  ELSE LET mx == MaxOf({ Ext(m, w, c) : c \in C })
           T  == { c \in C : Ext(m, w, c) = mx }
           pp == MinOf({ c[1] : c \in T })
       IN  { c \in T : c[1] = pp }

\* mode transition on a token type (first entry wins; valid configurations have at most one)
HasTrans(m, tt) == \E k \in DOMAIN m.trans : m.trans[k][1] = tt
TransTarget(m, tt) == m.trans[MinOf({ k \in DOMAIN m.trans : m.trans[k][1] = tt })][2]

\* first position >= i with a candidate together with its admissible tokens: <<position, Best>>;
\* <<Len(w)+1, {}>> if there is none (Best is empty exactly when there is no candidate)
RECURSIVE FirstBest(_, _, _)
FirstBest(m, w, i) ==
  IF i > Len(w) THEN << Len(w) + 1, {} >>
  ELSE LET B == Best(m, w, i) IN IF B # {} THEN << i, B >> ELSE FirstBest(m, w, i + 1)

\* first position >= i with a candidate, or Len(w)+1 if there is none
RECURSIVE FirstTokenPos(_, _, _)
FirstTokenPos(m, w, i) ==
  IF i > Len(w) THEN Len(w) + 1
  ELSE IF Cand(m, w, i) # {} THEN i
  ELSE FirstTokenPos(m, w, i + 1)
=============================================================================
