---------------------------- MODULE Emit_Tables ----------------------------
(* Writes the configuration table of a World (and its symbol table) as JSON, so that the     *)
(* harness can dump the automata the code compiles for exactly the configurations the        *)
(* specification enumerates (C02, C03, C18).                                                 *)
EXTENDS World, Json, IOUtils
ASSUME JsonSerialize(IOEnv.VERIF_TABLES,
                     [cfgs |-> [i \in CfgLo..CfgHi |-> Cfgs[i]], lo |-> CfgLo, syms |-> Syms])
VARIABLE emitted
EInit == emitted = TRUE
ENext == FALSE /\ emitted' = emitted
=============================================================================
