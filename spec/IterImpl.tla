------------------------------ MODULE IterImpl ------------------------------
(***************************************************************************)
(* Layer B: the bookkeeping of FindMatchesImpl (find_matches_impl.rs) -     *)
(* offset, last_position, last_char, line_offsets and the char_indices      *)
(* cursor - written like the code, one operator per method, and run in      *)
(* lockstep with the user-level machine ScannerApi.  TLC checks that it     *)
(* REFINES the user-level promises (C09, C10):                              *)
(*   CursorRefines : the char_indices cursor is ScannerApi's cursor         *)
(*   PosRefines    : position(o), computed from line_offsets as the code    *)
(*                   does, is an admissible position for every scanned o    *)
(* Which token is found at the cursor is taken from Tokenizer!Best (that    *)
(* the simulation loop finds it is C01/C05's business); this module is      *)
(* about what happens around it: skipping, consuming, resets, exhaustion.   *)
(*                                                                         *)
(* The two switches reproduce the code before its repairs (DESIGN 6, D4):   *)
(*   FixLastChar = FALSE : set_offset keeps the stale last_char             *)
(*   FixExhaust  = FALSE : exhaustion records a line start at               *)
(*                         last_position + offset instead of input.len()    *)
(*   FixAdvance  = FALSE : advance_to takes relative positions (D5)         *)
(*   FixPeekSkip = FALSE : peek_n stops at the first unmatched character    *)
(*                         (D6) - refutes PeekRefines (C11)                 *)
(* bin/check runs the model with all TRUE (must hold) and with each FALSE   *)
(* (TLC must find the counter-example: the refinement check is not vacuous).*)
(***************************************************************************)
EXTENDS ScannerApi

CONSTANTS FixLastChar, FixExhaust,
          FixAdvance,     \* FALSE: advance_to takes positions relative to the last reset (before repair D5)
          WithAdvance,    \* TRUE: also explore peek_n / advance_to / set_mode and set_offset to any boundary (C10, C11)
          FixPeekSkip     \* FALSE: peek_n gives up at the first character no pattern matches (before repair D6)

VARIABLES impl     \* [off, nxt, lastpos, lastnl, lines] - see NewImpl
ivars == <<scanners, iters, cache, impl>>

K == iters[1].inp
NL(k, j) == Inputs[k].nl[j]

NewImpl == [ off     |-> 0,      \* self.offset: byte offset the char_indices iterator is relative to
             nxt     |-> 1,      \* symbol index of the character char_indices yields next
             lastpos |-> 0,      \* self.last_position: relative byte index of the last character consumed by advance_to
             lastnl  |-> FALSE,  \* self.last_char = '\n'
             lines   |-> {0} ]   \* self.line_offsets

\* advance_to_relative's loop body for the character at symbol index j
Consume(st, k, j) ==
  [st EXCEPT !.lines = IF st.lastnl THEN @ \cup {Off(k, j)} ELSE @,
             !.lastnl = NL(k, j),
             !.lastpos = Off(k, j) - st.off,
             !.nxt = j + 1]

\* advance_to_relative(position): consume characters until one ends at or after `position`
RECURSIVE AdvLoop(_, _, _, _)
AdvLoop(st, k, p, any) ==
  IF st.nxt > LenW(k) THEN (IF any THEN st ELSE [st EXCEPT !.lastpos = 0])   \* new_position stays 0 if nothing was consumed
  ELSE LET j == st.nxt
           st2 == Consume(st, k, j) IN
       IF Off(k, j + 1) - st.off >= p THEN st2 ELSE AdvLoop(st2, k, p, TRUE)
AdvanceRel(st, k, p) == IF p < st.lastpos THEN st ELSE AdvLoop(st, k, p, FALSE)

\* record_line_offset(i, c)
Record(st, i, isnl) == [st EXCEPT !.lines = IF st.lastnl THEN @ \cup {i} ELSE @, !.lastnl = isnl]

\* next_match: find at the cursor; on no match skip one character; at the end record the last line
RECURSIVE NextLoop(_, _, _)
NextLoop(st, k, md) ==
  LET m == ModeOf(iters[1].cfg, md)
      B == IF st.nxt <= LenW(k) THEN Best(m, W(k), st.nxt) ELSE {} IN
  IF B # {}
    THEN { LET t == TokOf(iters[1].cfg, md, k, st.nxt, c) IN
           [tok |-> t, st |-> AdvanceRel(st, k, Off(k, c[2]) - st.off)] : c \in B }
  ELSE IF st.nxt <= LenW(k)
    THEN NextLoop(Record([st EXCEPT !.nxt = @ + 1], Off(k, st.nxt), NL(k, st.nxt)), k, md)
  ELSE { [tok |-> NoTok,
          st |-> Record(st, IF FixExhaust THEN ByteLen(k) ELSE st.lastpos + st.off, FALSE)] }

\* peek_n(n): the loop of find_matches_impl.rs::peek_n on a COPY of the cursor (ci); neither the
\* bookkeeping nor the mode is touched.  toks: the matches collected so far
RECURSIVE PeekLoop(_, _, _, _, _)
PeekLoop(ci, k, md, n, toks) ==
  IF Len(toks) >= n THEN { [toks |-> toks, sw |-> -1] }
  ELSE LET m == ModeOf(iters[1].cfg, md)
           B == IF ci <= LenW(k) THEN Best(m, W(k), ci) ELSE {} IN
       IF B # {}
         THEN UNION { LET t == TokOf(iters[1].cfg, md, k, ci, c) IN
                      IF HasTrans(m, t[1])                                  \* has_transition: stop after this match
                        THEN { [toks |-> Append(toks, t), sw |-> TransTarget(m, t[1])] }
                        ELSE PeekLoop(c[2], k, md, n, Append(toks, t))      \* advance_char_indices_beyond_match
                      : c \in B }
       ELSE IF ci > LenW(k) THEN { [toks |-> toks, sw |-> -1] }             \* char_indices.next() is None
       ELSE IF FixPeekSkip THEN PeekLoop(ci + 1, k, md, n, toks)            \* skip the unmatched character
       ELSE { [toks |-> toks, sw |-> -1] }
\* the PeekResult variant chosen at the end of peek_n
ImplPeek(st, k, md, n) ==
  { [kind   |-> IF r.sw # -1 THEN "S" ELSE IF Len(r.toks) = n THEN "M" ELSE IF r.toks = <<>> THEN "N" ELSE "E",
     toks   |-> r.toks,
     target |-> r.sw] : r \in PeekLoop(st.nxt, k, md, n, <<>>) }

\* set_offset(o)
ImplSetOffset(st, k, o) ==
  LET i == IdxOf(k, Clamp(k, o)) IN
  [st EXCEPT !.off = o, !.nxt = i, !.lastpos = 0,
             !.lastnl = IF FixLastChar THEN (i > 1 /\ NL(k, i - 1)) ELSE @]

\* the public advance_to(position): positions are relative to the whole input
ImplAdvance(st, k, p) == AdvanceRel(st, k, IF FixAdvance THEN (IF p >= st.off THEN p - st.off ELSE 0) ELSE p)

\* offset(): documented as "the end offset of the last match"; what the code returns is the byte
\* offset of the START of the last character consumed (last_position + offset).  Not part of any
\* listed property; modelled as the code behaves and bound by the MODEL-DRIFT leg (Trace_Iter).
ImplOffsetFn(st) == st.lastpos + st.off
\* the value advance_to(p) returns: the same quantity after the call (documented as "the new
\* position in the haystack")
ImplAdvanceRet(st, k, p) == ImplOffsetFn(ImplAdvance(st, k, p))

\* position(o): binary search in line_offsets
ImplPos(st, o) ==
  IF o \in st.lines THEN << Cardinality({ x \in st.lines : x <= o }), 1 >>
  ELSE LET below == { x \in st.lines : x < o } IN << Cardinality(below), o - MaxOf(below) + 1 >>

\* ---- lockstep with the user-level machine ----
IInit == \E ci \in CfgLo..CfgHi :
         /\ scanners = << [cfg |-> ci, mode |-> 0] >> /\ cache = {}
         /\ \E k \in DOMAIN Inputs : iters = << [sc |-> 1, cfg |-> ci, inp |-> k, cur |-> 1, mode |-> 0,
                                                hw |-> 1, posok |-> TRUE, peeked |-> {}] >>
         /\ impl = NewImpl

StepNextI == \E r \in NextLoop(impl, K, iters[1].mode) :
               /\ DoNext(1, r.tok)                 \* the token the bookkeeping delivers is the specified one
               /\ impl' = r.st
StepSetOffsetI == \E o \in { Off(K, i) : i \in 1..iters[1].hw } :       \* to offsets already scanned (C09)
                    /\ DoSetOffset(1, o)
                    /\ impl' = ImplSetOffset(impl, K, o)
\* C10: peek_n does not touch the bookkeeping; advance_to(end of a peeked match) moves the cursor
StepPeekI == \E n \in 0..3 : \E res \in ImplPeek(impl, K, iters[1].mode, n) : DoPeek(1, n, res) /\ UNCHANGED impl
StepSetModeI == \E m \in 0..(NModes(iters[1].cfg) - 1) : DoSetMode(1, m) /\ UNCHANGED impl
StepAdvanceI == \E p \in iters[1].peeked : DoAdvanceTo(1, p) /\ impl' = ImplAdvance(impl, K, p)
StepSetOffsetAnyI == \E o \in { Off(K, i) : i \in 1..(LenW(K) + 1) } \cup { ByteLen(K) + 2 } :
                       /\ DoSetOffset(1, o)
                       /\ impl' = ImplSetOffset(impl, K, o)
INext == StepNextI \/ StepSetOffsetI \/ (WithAdvance /\ (StepPeekI \/ StepAdvanceI \/ StepSetOffsetAnyI \/ StepSetModeI))

CursorRefines == impl.nxt = iters[1].cur
PosRefines == iters[1].posok =>
                \A i \in 1..iters[1].hw : ImplPos(impl, Off(K, i)) \in PosAdm(K, Off(K, i))
\* what the bookkeeping delivers is what the user-level machine admits (a step the user-level
\* machine does not admit would otherwise just be disabled, i.e. silently not explored)
NextRefines == \A r \in NextLoop(impl, K, iters[1].mode) : r.tok \in { o.tok : o \in NextOutcomes(iters[1]) }
PeekRefines == WithAdvance => \A n \in 0..3 : ImplPeek(impl, K, iters[1].mode, n) \subseteq PeekResults(iters[1], n)
\* ScannerApi!PeekResultOK (the linear check DoPeek uses) accepts exactly the members of
\* ScannerApi!PeekResults (the definition): every member is accepted, and a member with one field
\* changed - a token dropped at the end, a token's end moved, another classification, another
\* target - is accepted only if it is a member too.
PeekMutants(res) ==
  LET L == Len(res.toks) IN
  { [res EXCEPT !.kind = kd] : kd \in {"M", "E", "S", "N"} }
  \cup { [res EXCEPT !.target = tg] : tg \in -1..2 }
  \cup (IF L = 0 THEN {} ELSE { [res EXCEPT !.toks = SubSeq(res.toks, 1, L - 1)] })
  \cup (IF L = 0 THEN {} ELSE { [res EXCEPT !.toks[L] = << res.toks[L][1], res.toks[L][2], res.toks[L][3] + d >>] : d \in {-1, 1} })
  \cup (IF L = 0 THEN {} ELSE { [res EXCEPT !.toks[1] = << res.toks[1][1] + 1, res.toks[1][2], res.toks[1][3] >>] })
PeekCheckLemma ==
  WithAdvance => \A n \in 0..3 :
    LET R == PeekResults(iters[1], n) IN
    /\ \A res \in R : PeekResultOK(iters[1], n, res)
    /\ \A res \in R : \A mu \in PeekMutants(res) : PeekResultOK(iters[1], n, mu) => mu \in R
IInv == CursorRefines /\ PosRefines /\ NextRefines /\ PeekRefines /\ PeekCheckLemma
=============================================================================
