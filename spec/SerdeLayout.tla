---------------------------- MODULE SerdeLayout ----------------------------
(***************************************************************************)
(* C16: configurations and matches survive serialisation unchanged.        *)
(*                                                                         *)
(* The specification owns the JSON LAYOUT (the one the README shows):      *)
(*   mode     [name, patterns: <<pattern...>>, transitions: <<<<tt, m>>>>] *)
(*   pattern  [pattern, token_type] plus [lookahead: [is_positive,         *)
(*            pattern]] only when there is one                             *)
(*   Match    [token_type, span: [start, end]]                             *)
(*   MatchExt Match plus [start_position, end_position: [line, column]]    *)
(* Phase "emit": TLC enumerates abstract values (strings from a pool with  *)
(* quotes, backslashes, control and non-ASCII characters) and writes them  *)
(* with ITS OWN serialiser (key order differs from serde's: layout, not    *)
(* text, is what matters).  The harness deserialises each line into the    *)
(* Rust types, compares with the value built through the Rust API,         *)
(* re-serialises with serde_json, builds and scans.                        *)
(* Phase "check": TLC reads serde's text back and compares it with the     *)
(* abstract value it started from.                                         *)
(***************************************************************************)
EXTENDS Integers, Sequences, FiniteSets, TLC, Json, IOUtils

Pool == TLCEval(JsonDeserialize(IOEnv.VERIF_POOL))
Names == Pool.names
Pats  == Pool.patterns
Las   == Pool.lookaheads
TTs   == << 0, 7, 65536, 2147483647 >>

PatRec(p, tt, lk) ==
  IF lk = 0 THEN [pattern |-> p, token_type |-> tt]
  ELSE [pattern |-> p, token_type |-> tt,
        lookahead |-> [is_positive |-> (lk % 2 = 1), pattern |-> Las[((lk - 1) \div 2) + 1]]]
NLk == 2 * Len(Las) + 1

\* transitions lists: none, one, two (sorted by token type)
TransOpt(j, tt1, tt2) == CASE j = 0 -> <<>> [] j = 1 -> << <<tt1, 0>> >> [] j = 2 -> << <<tt1, 1>>, <<tt2, 0>> >>
                           [] j = 3 -> << <<tt1, 1>>, <<tt2, 1>> >>      \* two transitions to the same mode

\* a one-pattern mode for every (name, pattern, token type, lookahead option, transition option)
N1 == Len(Names) * Len(Pats) * Len(TTs) * NLk * 2
Mode1(k) ==
  LET a == k % Len(Names)
      b == (k \div Len(Names)) % Len(Pats)
      cc == (k \div (Len(Names) * Len(Pats))) % Len(TTs)
      d == (k \div (Len(Names) * Len(Pats) * Len(TTs))) % NLk
      e == (k \div (Len(Names) * Len(Pats) * Len(TTs) * NLk)) % 2
  IN [name |-> Names[a + 1], patterns |-> << PatRec(Pats[b + 1], TTs[cc + 1], d) >>,
      transitions |-> TransOpt(e, TTs[cc + 1], 0)]
\* two-mode configurations with two patterns each, striding through the one-pattern space
Mode2(k, other) ==
  LET m == Mode1(k) IN
  [name |-> m.name, patterns |-> << m.patterns[1], PatRec(Pats[(k % Len(Pats)) + 1], 9, (k * 7) % NLk) >>,
   transitions |-> IF m.patterns[1].token_type < 9 THEN TransOpt(2 + (k % 2), m.patterns[1].token_type, 9)
                   ELSE TransOpt(2 + (k % 2), 9, m.patterns[1].token_type)]
NPair == 400
\* lists with a mode that has no pattern at all (e.g. a mode that is only a transition target)
EmptyPatternModes ==
  << << [name |-> "EMPTY", patterns |-> <<>>, transitions |-> <<>>] >>,
     << Mode1(3), [name |-> Names[2], patterns |-> <<>>, transitions |-> <<>>] >>,
     << [name |-> "", patterns |-> <<>>, transitions |-> <<>>], Mode1(17), Mode1(40) >> >>
ModesValues ==
  [k \in 1..Len(EmptyPatternModes) |-> [kind |-> "modes", id |-> 0, value |-> EmptyPatternModes[k]]] \o
  [k \in 1..N1 |-> [kind |-> "modes", id |-> k, value |-> << Mode1(k - 1) >>]]
  \o [k \in 1..NPair |-> [kind |-> "modes", id |-> N1 + k,
                          value |-> << Mode2((k * 37) % N1, 1), Mode2((k * 101 + 5) % N1, 0) >>]]

\* Match / MatchExt / Span / Position values
Nums == << 0, 1, 255, 65535, 65536, 2147483640 >>
Span(a, b) == [start |-> a, end |-> b]
Posn(a, b) == [line |-> a, column |-> b]
NN == Len(Nums)
OtherValues ==
  [k \in 1..(NN * NN) |-> [kind |-> "span", id |-> 0, value |-> Span(Nums[((k - 1) \div NN) + 1], Nums[((k - 1) % NN) + 1])]]
  \o [k \in 1..(NN * NN) |-> [kind |-> "position", id |-> 0, value |-> Posn(Nums[((k - 1) \div NN) + 1] + 1, Nums[((k - 1) % NN) + 1] + 1)]]
  \o [k \in 1..(NN * NN) |-> [kind |-> "match", id |-> 0,
                              value |-> [token_type |-> Nums[((k - 1) \div NN) + 1], span |-> Span(Nums[((k - 1) % NN) + 1], Nums[NN - ((k - 1) % NN)])]]]
  \o [k \in 1..(NN * NN) |-> [kind |-> "matchext", id |-> 0,
                              value |-> [token_type |-> Nums[((k - 1) \div NN) + 1], span |-> Span(Nums[((k - 1) % NN) + 1], Nums[((k - 1) % NN) + 1] + 3),
                                         start_position |-> Posn(Nums[((k - 1) \div NN) + 1] + 1, 1),
                                         end_position |-> Posn(Nums[((k - 1) % NN) + 1] + 1, Nums[((k - 1) \div NN) + 1] + 1)]]]

AllValues == TLCEval(LET v == ModesValues \o OtherValues IN [k \in DOMAIN v |-> [v[k] EXCEPT !.id = k]])

Phase == IOEnv.VERIF_PHASE
ASSUME Phase = "emit" => ndJsonSerialize(IOEnv.VERIF_OUT, AllValues)

\* ---- phase "check": what the Rust side made of each value ----
Back == TLCEval(IF Phase = "check" THEN ndJsonDeserialize(IOEnv.VERIF_BACK) ELSE <<>>)

\* serde's text, read back by TLC, must SHOW the abstract value: every field of the abstract
\* value is present with an equal value; sequences have the same length.  Additional fields in
\* serde's text are not a violation of C16 (the property fixes no output layout beyond the round
\* trip), so a maintainer may add one.
Has(r, f) == f \in DOMAIN r
SpanShows(j, a) == Has(j, "start") /\ Has(j, "end") /\ j.start = a.start /\ j.end = a.end
PosShows(j, a) == Has(j, "line") /\ Has(j, "column") /\ j.line = a.line /\ j.column = a.column
PatShows(j, a) ==
  /\ Has(j, "pattern") /\ Has(j, "token_type") /\ j.pattern = a.pattern /\ j.token_type = a.token_type
  /\ Has(a, "lookahead") = Has(j, "lookahead")          \* an absent lookahead stays absent
  /\ Has(a, "lookahead") => /\ Has(j.lookahead, "is_positive") /\ Has(j.lookahead, "pattern")
                            /\ j.lookahead.is_positive = a.lookahead.is_positive
                            /\ j.lookahead.pattern = a.lookahead.pattern
ModeShows(j, a) ==
  /\ Has(j, "name") /\ Has(j, "patterns") /\ Has(j, "transitions")
  /\ j.name = a.name /\ j.transitions = a.transitions
  /\ Len(j.patterns) = Len(a.patterns) /\ \A k \in DOMAIN a.patterns : PatShows(j.patterns[k], a.patterns[k])
Covers(kind, j, a) ==
  CASE kind = "modes"    -> Len(j) = Len(a) /\ \A k \in DOMAIN a : ModeShows(j[k], a[k])
    [] kind = "span"     -> SpanShows(j, a)
    [] kind = "position" -> PosShows(j, a)
    [] kind = "match"    -> Has(j, "token_type") /\ Has(j, "span") /\ j.token_type = a.token_type /\ SpanShows(j.span, a.span)
    [] kind = "matchext" -> /\ Has(j, "token_type") /\ Has(j, "span") /\ Has(j, "start_position") /\ Has(j, "end_position")
                            /\ j.token_type = a.token_type /\ SpanShows(j.span, a.span)
                            /\ PosShows(j.start_position, a.start_position) /\ PosShows(j.end_position, a.end_position)

LineOK(b) ==
  IF b.kind = "readme" THEN b.deserialized /\ b.builds
  ELSE /\ b.deserialized                                  \* TLC's text in the README layout is accepted
       /\ b.equals_api_value                              \* ... and means the value built through the Rust API
       /\ Covers(b.kind, b.value, AllValues[b.id].value)          \* serde's text, read back by TLC, shows the abstract value
       /\ b.roundtrip_equal                               \* from_str(to_string(x)) = x on the Rust side
       /\ (b.kind = "modes" => b.same_behaviour)          \* both configurations build scanners that scan alike

VARIABLE sk
SInit == sk = 1
SNext == sk <= Len(Back) /\ sk' = sk + 1
SReport == (sk <= Len(Back) /\ ~LineOK(Back[sk])) => PrintT(<<"SERDE-DIFF", sk>>)
\* every emitted value must come back, plus the README block
SComplete == (sk = Len(Back) + 1 /\ Phase = "check") =>
               (Len(Back) = Len(AllValues) + 1 \/ PrintT(<<"SERDE-MISSING", Len(Back), Len(AllValues)>>))
=============================================================================
