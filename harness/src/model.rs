//! Configurations as the specification describes them, and their construction through scnr's
//! public API.

use crate::ast::Re;
use scnr::{Lookahead, Pattern, Scanner, ScannerBuilder, ScannerMode};
use serde_json::{json, Value};

#[derive(Clone, Debug)]
pub struct PatSpec {
    pub re: Re,
    pub tt: usize,
    /// (is_positive, regex)
    pub la: Option<(bool, Re)>,
}

#[derive(Clone, Debug)]
pub struct ModeSpec {
    pub name: String,
    pub pats: Vec<PatSpec>,
    pub trans: Vec<(usize, usize)>,
}

#[derive(Clone, Debug)]
pub struct CfgSpec {
    pub modes: Vec<ModeSpec>,
    /// build through `ScannerBuilder::add_patterns` (token type = index)
    pub simple: bool,
}

impl CfgSpec {
    pub fn from_json(v: &Value) -> Result<CfgSpec, String> {
        let mut modes = vec![];
        for m in v["modes"].as_array().ok_or("modes")? {
            let mut pats = vec![];
            for p in m["pats"].as_array().ok_or("pats")? {
                let la = match p["la"]["kind"].as_str().ok_or("la.kind")? {
                    "none" => None,
                    "pos" => Some((true, Re::from_json(&p["la"]["re"])?)),
                    "neg" => Some((false, Re::from_json(&p["la"]["re"])?)),
                    k => return Err(format!("la kind {k}")),
                };
                pats.push(PatSpec { re: Re::from_json(&p["re"])?, tt: p["tt"].as_u64().ok_or("tt")? as usize, la });
            }
            let mut trans = vec![];
            for t in m["trans"].as_array().ok_or("trans")? {
                trans.push((t[0].as_u64().ok_or("trans tt")? as usize, t[1].as_u64().ok_or("trans mode")? as usize));
            }
            modes.push(ModeSpec { name: m["name"].as_str().ok_or("name")?.to_string(), pats, trans });
        }
        Ok(CfgSpec { modes, simple: v.get("simple").and_then(|b| b.as_bool()).unwrap_or(false) })
    }

    pub fn to_modes(&self, syms: &[char]) -> Vec<ScannerMode> {
        self.modes
            .iter()
            .map(|m| {
                ScannerMode::new(
                    &crate::ttmap::conc_name(&m.name),
                    m.pats.iter().map(|p| {
                        let q = Pattern::new(p.re.print_top(syms), crate::ttmap::conc(p.tt));
                        match &p.la {
                            Some((pos, l)) => q.with_lookahead(Lookahead::new(*pos, l.print(syms))),
                            None => q,
                        }
                    }),
                    // sorted by the concrete token type, as ScannerMode::new demands (the concretisation is not monotone)
                    { let mut tr = m.trans.iter().map(|(t, m)| (crate::ttmap::conc(*t), *m)).collect::<Vec<_>>(); tr.sort(); tr },
                )
            })
            .collect()
    }

    /// human-readable concrete form (for replay files and samples)
    pub fn describe(&self, syms: &[char]) -> Value {
        json!({
            "simple": self.simple,
            "modes": self.modes.iter().map(|m| json!({
                "name": crate::ttmap::conc_name(&m.name),
                "patterns": m.pats.iter().map(|p| json!({
                    "pattern": p.re.print_top(syms),
                    "token_type": crate::ttmap::conc(p.tt),
                    "lookahead": p.la.as_ref().map(|(pos, l)| json!({"is_positive": pos, "pattern": l.print(syms)})),
                })).collect::<Vec<_>>(),
                "transitions": m.trans.iter().map(|(t, m)| (crate::ttmap::conc(*t), *m)).collect::<Vec<_>>(),
            })).collect::<Vec<_>>()
        })
    }

    pub fn build(&self, syms: &[char], cached: bool) -> scnr::Result<Scanner> {
        if self.simple {
            let pats: Vec<String> = self.modes[0].pats.iter().map(|p| p.re.print_top(syms)).collect();
            ScannerBuilder::new().add_patterns(pats).build()
        } else {
            crate::parse::build_via(&self.to_modes(syms), cached)
        }
    }
}
