//! C17: automata with more than 2^16 states. Necessarily full scale: the configurations are built
//! through the public API, a selection of inputs around the 2^16 boundary is scanned, and the
//! calls are recorded as a trace for spec/Trace_Api.tla (oracle: the ordinary Tokenizer; the
//! configuration is flagged `large`, so a build error is an admissible outcome).

use crate::exec::World;
use crate::model::CfgSpec;
use crate::parse::{atomise, RealMode, RealPat};
use crate::record::{cfg_to_json, describe_modes, Batch};
use serde_json::{json, Value};
use std::collections::BTreeSet;

/// `offs[k]`: byte offset at which the scan of `texts[k]` starts (`with_offset`)
fn record_large(b: &mut Batch, trace_id: usize, what: &str, modes: &[RealMode], texts: &[String], offs: &[usize]) {
    let t0 = std::time::Instant::now();
    let mut charset: BTreeSet<char> = BTreeSet::new();
    for t in texts {
        charset.extend(t.chars());
    }
    let chars: Vec<char> = charset.into_iter().collect();
    let (spec, atom_of_char) = atomise(modes, &chars).expect("atomise");
    let first_event = b.events.len() + 1;
    let mut cj = cfg_to_json(&spec);
    cj["large"] = json!(true);
    b.cfgs.push(cj);
    let ci = b.cfgs.len();
    let input_ids: Vec<usize> = texts.iter().map(|t| b.add_input(t, &chars, &atom_of_char)).collect();
    b.events.push(json!({"op": "reset", "trace": trace_id}));
    let sm = crate::parse::to_scanner_modes_mono(modes);
    let built = std::panic::catch_unwind(std::panic::AssertUnwindSafe(|| scnr::ScannerBuilder::new().add_scanner_modes(&sm).build_uncached()));
    let build_s = t0.elapsed().as_secs_f64();
    let syms: Vec<char> = vec![];
    let mut w = World::new(&syms);
    let cfg_of = |_: u64| -> Option<CfgSpec> { None };
    match built {
        Err(e) => b.events.push(json!({"op": "panic", "during": "build", "msg": crate::exec::panic_msg(e)})),
        Ok(Err(e)) => b.events.push(json!({"op": "build", "cfg": ci, "cached": false, "ok": false, "err": e.to_string()})),
        Ok(Ok(sc)) => {
            b.events.push(json!({"op": "build", "cfg": ci, "cached": false, "ok": true}));
            w.scanners.push(sc);
            for (k, t) in texts.iter().enumerate() {
                let obs = w.exec(&json!({"op": "newiter", "sc": 1, "text": t, "off": offs[k]}), &cfg_of, false);
                if obs.get("panic").is_some() {
                    b.events.push(json!({"op": "panic", "during": "newiter", "msg": obs["panic"]}));
                    break;
                }
                b.events.push(json!({"op": "newiter", "sc": 1, "inp": input_ids[k], "off": offs[k]}));
                let it = k + 1;
                loop {
                    let obs = w.exec(&json!({"op": "next", "it": it}), &cfg_of, false);
                    if obs.get("panic").is_some() {
                        b.events.push(json!({"op": "panic", "during": "next", "it": it, "msg": obs["panic"]}));
                        break;
                    }
                    let none = obs["res"].as_array().map(|a| a.is_empty()).unwrap_or(true);
                    b.events.push(json!({"op": "next", "it": it, "res": obs["res"], "mode": obs["mode"]}));
                    if none {
                        break;
                    }
                }
            }
        }
    }
    // the full configuration is too large for a report: describe it
    let desc: Value = if modes[0].pats.len() > 50 {
        json!({"what": what, "patterns": modes[0].pats.len(), "first": describe_modes(&[RealMode { name: modes[0].name.clone(), pats: modes[0].pats[..3].to_vec(), trans: vec![] }])})
    } else {
        describe_modes(modes)
    };
    b.meta.push(json!({"trace": trace_id, "first_event": first_event, "last_event": b.events.len(), "modes": desc,
        "inputs": texts.iter().map(|t| if t.chars().count() > 200 { format!("{} characters", t.chars().count()) } else { t.clone() }).collect::<Vec<_>>(),
        "what": what, "build_seconds": build_s}));
}

/// `large <out dir> <which: keywords|repeat|both>`
pub fn main(args: &[String]) -> i32 {
    let out = &args[0];
    let which = args[1].as_str();
    let mut b = Batch::new();
    let mut trace = 0;
    if which == "keywords" || which == "both" {
        // A very large keyword list whose automaton, class registry and minimiser partition all cross
        // the 2^16 boundary: 8 two-character keywords x·L_k (token types 0..7), 65 528 one-character
        // keywords (types 8..65 535), 8 two-character keywords y·L_k (types 65 536..65 543).
        // The states "after x" and "after y" start in one partition group and are told apart only
        // by target groups whose indices differ by exactly 2^16.
        let nf = 65_528usize;
        let base = 0x10000u32;
        let filler = |k: usize| char::from_u32(base + k as u32).unwrap();
        let letters: Vec<char> = "abcdefgh".chars().collect();
        let mut pats: Vec<RealPat> = vec![];
        for (k, l) in letters.iter().enumerate() {
            pats.push(RealPat { pattern: format!("x{l}"), tt: k, la: None });
        }
        for k in 0..nf {
            pats.push(RealPat { pattern: filler(k).to_string(), tt: 8 + k, la: None });
        }
        for (k, l) in letters.iter().enumerate() {
            pats.push(RealPat { pattern: format!("y{l}"), tt: 65_536 + k, la: None });
        }
        let modes = vec![RealMode { name: "KEYWORDS".into(), pats, trans: vec![] }];
        let mut idx: Vec<usize> = (0..24).collect();
        idx.extend(nf - 40..nf);
        idx.extend((0..nf).step_by(2999));
        let text: String = idx.iter().map(|k| filler(*k)).chain("q".chars()).collect();
        let mut text2 = String::new();
        for l in &letters {
            text2.push_str(&format!("x{l} y{l} "));
        }
        text2.push_str("x y xx yb");
        let text3: String = [nf - 1, 0, nf - 2, 1].iter().map(|k| filler(*k)).chain("ya".chars()).collect();
        trace += 1;
        record_large(&mut b, trace, "65544 keywords: x·[a-h] (types 0..7), 65528 one-character keywords, y·[a-h] (types 65536..65543)", &modes, &[text, text2, text3], &[0, 0, 0]);
    }
    if which == "repeat" || which == "both" {
        let n: usize = std::env::var("VERIF_LARGE_N").ok().and_then(|v| v.parse().ok()).unwrap_or(66_000);
        let modes = vec![RealMode { name: "REPEAT".into(), pats: vec![RealPat { pattern: format!("a{{{n}}}b"), tt: 7, la: None }], trans: vec![] }];
        let mk = |k: usize| format!("{}b", "a".repeat(k));
        // a^(n-1) b matches nowhere; scanned from the start that costs n^2/2 steps on both sides
        // (the code retries at every character, and so does the specification), so the scan
        // starts 5 characters before the end
        let texts = vec![mk(n), mk(n - 1), mk(464), mk(465), mk(463), mk(n + 1), mk(2 * n)];
        trace += 1;
        record_large(&mut b, trace, &format!("a{{{n}}}b"), &modes, &texts, &[0, n - 5, 0, 0, 0, 0, n - 2]);
    }
    b.write(out);
    println!("{}", json!({"traces": trace, "events": b.events.len(), "build_seconds": b.meta.iter().map(|m| m["build_seconds"].clone()).collect::<Vec<_>>()}));
    0
}
