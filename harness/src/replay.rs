//! Direction 1 (spec -> code): replays the behaviours TLC generated from spec/Gen_Hist.tla.
//!
//! stdin: TLC's output; every line `<<"REPLAY", "<json>">>` is one complete behaviour.
//! The tables file (written by TLC itself from the same constants) holds the configurations and
//! the symbol table. A behaviour whose specification-side result sets were all singletons
//! (`nb = 1` everywhere) is judged at once; behaviours that branched on a set-valued result are
//! grouped by their calls and the code must agree with ONE member of the group.

use crate::ast::sym_char;
use crate::exec::{differs, World};
use crate::model::CfgSpec;
use serde_json::{json, Value};
use std::collections::{HashMap, HashSet};
use std::io::BufRead;
use std::sync::mpsc::sync_channel;
use std::sync::{Arc, Mutex};

pub struct Tables {
    pub raw_cfgs: Vec<Value>,
    pub raw_syms: Value,
    pub lo: u64,
    pub cfgs: Vec<CfgSpec>,
    pub syms: Vec<char>,
}

pub fn load_tables(path: &str) -> Tables {
    let v: Value = serde_json::from_str(&std::fs::read_to_string(path).expect("tables file")).expect("tables json");
    tables_from(&v)
}

pub fn tables_from(v: &Value) -> Tables {
    let syms: Vec<char> = v["syms"].as_array().unwrap().iter().map(|s| sym_char(s["ch"].as_str().unwrap())).collect();
    for (s, c) in v["syms"].as_array().unwrap().iter().zip(syms.iter()) {
        assert_eq!(s["n"].as_u64().unwrap() as usize, c.len_utf8(), "symbol width");
        assert_eq!(s["nl"].as_bool().unwrap(), *c == '\n', "symbol nl flag");
    }
    let cfgs = v["cfgs"].as_array().unwrap().iter().map(|c| CfgSpec::from_json(c).expect("cfg")).collect();
    Tables { raw_cfgs: v["cfgs"].as_array().unwrap().clone(), raw_syms: v["syms"].clone(), lo: v["lo"].as_u64().unwrap(), cfgs, syms }
}

pub fn unescape_tlc(line: &str) -> Option<String> {
    let body = line.strip_prefix("<<\"REPLAY\", \"")?.strip_suffix("\">>")?;
    let mut out = String::with_capacity(body.len());
    let mut it = body.chars();
    while let Some(c) = it.next() {
        if c == '\\' {
            match it.next() {
                Some('n') => out.push('\n'),
                Some('t') => out.push('\t'),
                Some('r') => out.push('\r'),
                Some('f') => out.push('\u{c}'),
                Some(o) => out.push(o),
                None => {}
            }
        } else {
            out.push(c);
        }
    }
    Some(out)
}

#[derive(Default)]
struct Stats {
    behaviours: u64,
    calls: u64,
    with_token: u64,
    ambiguous: u64,
    cfgs_with_token: HashSet<u64>,
    violations: Vec<Value>,
    n_violations: u64,
    op_counts: HashMap<String, u64>,
    samples: Vec<Value>,
    // ambiguous groups: key -> (matched, first mismatch report)
    groups: HashMap<String, (bool, Option<Value>)>,
}

fn key_of(hist: &[Value]) -> String {
    let mut s = String::new();
    for e in hist {
        for k in ["op", "it", "sc", "cfg", "w", "off", "n", "m", "o", "p", "k", "cached"] {
            if let Some(v) = e.get(k) {
                s.push_str(&v.to_string());
                s.push(',');
            }
        }
        s.push(';');
    }
    s
}

/// Runs one behaviour in a fresh child process (empty scanner cache): C13.
fn run_isolated(tables_path: &str, line: &str) -> (u64, bool, Option<Value>) {
    use std::io::Write;
    let exe = std::env::current_exe().unwrap();
    let mut ch = std::process::Command::new(exe)
        .args(["replay-child", tables_path])
        .stdin(std::process::Stdio::piped())
        .stdout(std::process::Stdio::piped())
        .stderr(std::process::Stdio::null())
        .spawn()
        .expect("spawn child");
    ch.stdin.take().unwrap().write_all(line.as_bytes()).unwrap();
    let out = ch.wait_with_output().unwrap();
    match serde_json::from_slice::<Value>(&out.stdout) {
        Ok(v) => (v["calls"].as_u64().unwrap_or(0), v["saw"].as_bool().unwrap_or(false), if v["bad"].is_null() { None } else { Some(v["bad"].clone()) }),
        Err(_) => (0, false, Some(json!({"kind": "replay", "difference": format!("child process died: {:?}", out.status), "calls_specified": [], "configurations": [], "inputs": []}))),
    }
}

/// `replay-child <tables>`: one behaviour (JSON) on stdin, verdict on stdout
pub fn main_child(args: &[String]) -> i32 {
    let t = load_tables(&args[0]);
    let mut s = String::new();
    std::io::Read::read_to_string(&mut std::io::stdin(), &mut s).unwrap();
    let v: Value = serde_json::from_str(&s).expect("behaviour json");
    let (calls, saw, bad) = run_behaviour(&t, v["hist"].as_array().unwrap());
    println!("{}", json!({"calls": calls, "saw": saw, "bad": bad}));
    0
}

/// Runs one behaviour. Returns (calls executed, saw a token, mismatch report)
fn run_behaviour(t: &Tables, hist: &[Value]) -> (u64, bool, Option<Value>) {
    let mut w = World::new(&t.syms);
    let cfg_of = |ci: u64| t.cfgs.get((ci - t.lo) as usize).cloned();
    // an iterator is wrapped in WithPositions iff its history has nextpos and neither peek nor advance
    let mut n_iter = 0usize;
    let mut want_pos: Vec<bool> = vec![];
    for e in hist {
        if e["op"] == "newiter" {
            n_iter += 1;
            let id = n_iter as u64;
            let has = |op: &str| hist.iter().any(|x| x["op"] == op && x["it"].as_u64() == Some(id));
            want_pos.push(has("nextpos") && !has("peek") && !has("advance"));
        }
    }
    let mut created = 0usize;
    let mut calls = 0;
    let mut saw_token = false;
    let mut observed: Vec<Value> = vec![];
    for (step, e) in hist.iter().enumerate() {
        let wp = if e["op"] == "newiter" {
            created += 1;
            want_pos[created - 1]
        } else {
            false
        };
        let obs = w.exec(e, &cfg_of, wp);
        calls += 1;
        if obs.get("res").and_then(|r| r.as_array()).map(|a| a.len() == 3).unwrap_or(false)
            || obs.get("toks").and_then(|r| r.as_array()).map(|a| !a.is_empty()).unwrap_or(false)
        {
            saw_token = true;
        }
        if obs.get("panic").and_then(|p| p.as_str()).map(|p| p.starts_with("harness:")).unwrap_or(false) {
            eprintln!("HARNESS-ERROR {} on {}", obs["panic"], e);
            crate::HARNESS_ERRORS.fetch_add(1, std::sync::atomic::Ordering::SeqCst);
        }
        let mut d = differs(e, &obs);
        if d.is_none() {
            if let Some(ap) = e.get("allpos").and_then(|a| a.as_array()).filter(|a| !a.is_empty()) {
                let h = e["it"].as_u64().unwrap() as usize - 1;
                let offs: Vec<usize> = ap.iter().map(|x| x[0].as_u64().unwrap() as usize).collect();
                let got = w.positions(h, &offs);
                match got.as_array() {
                    None => d = Some(format!("position query panicked: {got}")),
                    Some(g) => {
                        for (x, p) in ap.iter().zip(g.iter()) {
                            if !x[1].as_array().unwrap().contains(p) {
                                d = Some(format!("position({}) after this call: admissible {}, code {}", x[0], x[1], p));
                                break;
                            }
                        }
                    }
                }
            }
        }
        observed.push(obs);
        if let Some(d) = d {
            let cfgs: Vec<Value> = hist
                .iter()
                .filter(|x| x["op"] == "build")
                .map(|x| cfg_of(x["cfg"].as_u64().unwrap()).map(|c| c.describe(&t.syms)).unwrap_or(Value::Null))
                .collect();
            let inputs: Vec<Value> = hist.iter().filter(|x| x["op"] == "newiter").map(|x| json!(w.word(&x["w"]))).collect();
            return (
                calls,
                saw_token,
                Some(json!({
                    "kind": "replay", "step": step, "difference": d, "configurations": cfgs, "inputs": inputs,
                    "calls_specified": hist, "calls_observed": observed,
                    "tables": {"lo": 1, "syms": t.raw_syms, "cfgs": hist.iter().filter(|x| x["op"] == "build")
                        .map(|x| t.raw_cfgs.get((x["cfg"].as_u64().unwrap() - t.lo) as usize).cloned().unwrap_or(Value::Null)).collect::<Vec<_>>()},
                })),
            );
        }
    }
    (calls, saw_token, None)
}

pub fn main(args: &[String]) -> i32 {
    let tables_path = args[0].clone();
    let out_dir = args[1].clone();
    let report_path = args[2].clone();
    let threads: usize = args.get(3).and_then(|s| s.parse().ok()).unwrap_or(16);
    std::fs::create_dir_all(&out_dir).unwrap();
    let isolate = std::env::var("VERIF_ISOLATE").map(|v| v == "1").unwrap_or(false);
    let stats = Arc::new(Mutex::new(Stats::default()));
    let (tx, rx) = sync_channel::<Vec<String>>(64);
    let rx = Arc::new(Mutex::new(rx));
    // TLC writes the tables file before it generates the first state: load it on demand
    let tables_cell: Arc<std::sync::OnceLock<Tables>> = Arc::new(std::sync::OnceLock::new());
    let mut workers = vec![];
    for _ in 0..threads {
        let rx = rx.clone();
        let stats = stats.clone();
        let tables_cell = tables_cell.clone();
        let tables_path = tables_path.clone();
        workers.push(std::thread::spawn(move || loop {
            let chunk = match rx.lock().unwrap().recv() {
                Ok(c) => c,
                Err(_) => break,
            };
            let tables = tables_cell.get_or_init(|| load_tables(&tables_path));
            let mut local = Stats::default();
            for line in chunk {
                let Some(js) = unescape_tlc(&line) else { continue };
                let v: Value = serde_json::from_str(&js).expect("behaviour json");
                let hist = v["hist"].as_array().unwrap();
                let amb = hist.iter().any(|e| e.get("nb").and_then(|n| n.as_u64()).unwrap_or(1) > 1);
                let (calls, saw, bad) = if isolate { run_isolated(&tables_path, &js) } else { run_behaviour(tables, hist) };
                local.behaviours += 1;
                local.calls += calls;
                for e in hist.iter() {
                    if let Some(op) = e["op"].as_str() {
                        *local.op_counts.entry(op.to_string()).or_default() += 1;
                    }
                }
                if saw {
                    local.with_token += 1;
                    if let Some(ci) = hist[0]["cfg"].as_u64() {
                        local.cfgs_with_token.insert(ci);
                    }
                }
                if local.samples.len() < 2 && saw {
                    local.samples.push(v.clone());
                }
                if amb {
                    local.ambiguous += 1;
                    // members of a group share the calls up to and including the first call whose
                    // result set was not a singleton; the code must agree with one member entirely
                    let first = hist.iter().position(|e| e.get("nb").and_then(|n| n.as_u64()).unwrap_or(1) > 1).unwrap();
                    let e = local.groups.entry(key_of(&hist[..=first])).or_insert((false, None));
                    match bad {
                        None => e.0 = true,
                        Some(b) => {
                            if e.1.is_none() {
                                e.1 = Some(b)
                            }
                        }
                    }
                } else if let Some(b) = bad {
                    local.n_violations += 1;
                    if local.violations.len() < 50 {
                        local.violations.push(b);
                    }
                }
            }
            let mut g = stats.lock().unwrap();
            g.behaviours += local.behaviours;
            g.calls += local.calls;
            g.with_token += local.with_token;
            g.ambiguous += local.ambiguous;
            g.n_violations += local.n_violations;
            for (k, v) in local.op_counts {
                *g.op_counts.entry(k).or_default() += v;
            }
            g.cfgs_with_token.extend(local.cfgs_with_token);
            for v in local.violations {
                if g.violations.len() < 50 {
                    g.violations.push(v);
                }
            }
            for s in local.samples {
                if g.samples.len() < 3 {
                    g.samples.push(s);
                }
            }
            for (k, (m, b)) in local.groups {
                let e = g.groups.entry(k).or_insert((false, None));
                e.0 |= m;
                if e.1.is_none() {
                    e.1 = b;
                }
            }
        }));
    }
    let stdin = std::io::stdin();
    let mut chunk = Vec::with_capacity(2048);
    let mut other_lines: Vec<String> = vec![];
    for line in stdin.lock().lines() {
        let line = line.expect("stdin");
        if line.starts_with("<<\"REPLAY\"") {
            chunk.push(line);
            if chunk.len() >= 2048 {
                tx.send(std::mem::take(&mut chunk)).unwrap();
            }
        } else {
            other_lines.push(line);
        }
    }
    if !chunk.is_empty() {
        tx.send(chunk).unwrap();
    }
    drop(tx);
    for w in workers {
        w.join().unwrap();
    }
    let mut g = stats.lock().unwrap();
    // judge the ambiguous groups
    let groups = std::mem::take(&mut g.groups);
    let n_groups = groups.len();
    for (_, (matched, bad)) in groups {
        if !matched {
            g.n_violations += 1;
            if let Some(b) = bad {
                if g.violations.len() < 50 {
                    g.violations.push(b);
                }
            }
        }
    }
    let mut files = vec![];
    for (i, v) in g.violations.iter().enumerate() {
        let p = format!("{out_dir}/replay-{i}.json");
        std::fs::write(&p, serde_json::to_string_pretty(v).unwrap()).unwrap();
        files.push(p);
    }
    let report = json!({
        "behaviours": g.behaviours, "calls": g.calls, "behaviours_with_token": g.with_token,
        "ambiguous_behaviours": g.ambiguous, "ambiguous_groups": n_groups,
        "configurations_with_token": g.cfgs_with_token.len(),
        "op_counts": g.op_counts,
        "violations": g.n_violations, "harness_errors": crate::HARNESS_ERRORS.load(std::sync::atomic::Ordering::SeqCst), "violation_files": files, "samples": g.samples,
        "tlc_tail": other_lines.iter().rev().take(40).rev().collect::<Vec<_>>(),
    });
    std::fs::write(&report_path, serde_json::to_string_pretty(&report).unwrap()).unwrap();
    // TLC's own lines go to stdout for the orchestrator
    for l in other_lines {
        println!("{l}");
    }
    if crate::HARNESS_ERRORS.load(std::sync::atomic::Ordering::SeqCst) > 0 {
        return 2;
    }
    0
}

/// `replay1 <violation file>`: re-runs the behaviour of a violation report against the code.
pub fn main_one(args: &[String]) -> i32 {
    let v: Value = serde_json::from_str(&std::fs::read_to_string(&args[0]).expect("file")).expect("json");
    let t = tables_from(&v["tables"]);
    // the file's tables hold exactly the configurations built, in order: renumber the builds
    let mut hist: Vec<Value> = v["calls_specified"].as_array().unwrap().clone();
    let mut n = 0;
    for e in hist.iter_mut() {
        if e["op"] == "build" {
            n += 1;
            e["cfg"] = json!(n);
        }
    }
    let (_, _, bad) = run_behaviour(&t, &hist);
    match bad {
        Some(b) => {
            println!("REPRODUCED at step {}: {}", b["step"], b["difference"]);
            1
        }
        None => {
            println!("NOT REPRODUCED: the code now agrees with this behaviour");
            0
        }
    }
}
