//! Concretisation of token types, the counterpart of the atoms -> characters mapping.
//!
//! The API takes token types as `usize` and the properties quantify over arbitrary token-type
//! numbers; TLC's integers are 32 bit. The specification therefore works with small abstract
//! token types and the harness maps them, at the API boundary of every scanning-level leg, to
//! concrete ones of which most do not fit into 16 or 32 bits: an abstract type below 8 is itself,
//! 9 is usize::MAX, 13 and 14 are congruent to the images of 5 and 10 modulo 2^32, any other is
//! moved up by 2^40. What the code reports is mapped back; a reported type that is not
//! the image of an abstract one (e.g. a truncated one) maps to a value no abstract type has, so it
//! cannot be mistaken for the expected type.

const SHIFT: usize = 1 << 40;

/// additional pairs (abstract, concrete) for legs that need particular concrete numbers (the
/// constructed hash collision of C13); consulted first
static EXTRA: std::sync::Mutex<Vec<(usize, usize)>> = std::sync::Mutex::new(Vec::new());

pub fn set_extra(pairs: &[(usize, usize)]) {
    *EXTRA.lock().unwrap() = pairs.to_vec();
}

pub fn conc(t: usize) -> usize {
    if let Some(p) = EXTRA.lock().unwrap().iter().find(|p| p.0 == t) {
        return p.1;
    }
    if t < 8 {
        t
    } else if t == 9 {
        usize::MAX
    } else if t == 13 {
        // congruent to 5 modulo 2^32
        (1 << 32) + 5
    } else if t == 14 {
        // congruent to conc(10) modulo 2^32
        (1 << 32) + SHIFT + 10
    } else {
        t + SHIFT
    }
}

/// the order-preserving variant (serde check: the specification lists transitions in the order of
/// the abstract token types)
pub fn conc_mono(t: usize) -> usize {
    if t < 8 { t } else { t + SHIFT }
}

pub fn abs(x: usize) -> u64 {
    if let Some(p) = EXTRA.lock().unwrap().iter().find(|p| p.1 == x) {
        return p.0 as u64;
    }
    if x < 8 {
        x as u64
    } else if x == usize::MAX {
        9
    } else if x == (1 << 32) + 5 {
        13
    } else if x == (1 << 32) + SHIFT + 10 {
        14
    } else if x >= SHIFT + 8 && x - SHIFT < (1 << 31) {
        (x - SHIFT) as u64
    } else {
        1_900_000_000 + (x % 1000) as u64
    }
}

/// Mode names are concretised too: the specification's plain names ("M0", "INITIAL", ...) are given
/// to the library with characters that need escaping in DOT files, JSON and debug output (quote,
/// backslash, a 2-byte character); what `mode_name` reports is mapped back by stripping exactly that
/// suffix - a name that comes back escaped, truncated or re-encoded stays unlike anything the
/// specification admits.
const NAME_SUFFIX: &str = " \"\\\u{e4}";
pub fn conc_name(n: &str) -> String {
    format!("{n}{NAME_SUFFIX}")
}
pub fn abs_name(n: &str) -> String {
    n.strip_suffix(NAME_SUFFIX).map(|s| s.to_string()).unwrap_or_else(|| n.to_string())
}
