//! The specification's regex ASTs (spec/RegexSem.tla) on the Rust side: JSON in and out, printing
//! to concrete regex syntax, and translation from the `regex-syntax` AST.

use serde_json::{json, Value};

#[derive(Clone, Debug, PartialEq)]
pub enum Re {
    Eps,
    /// atoms the leaf contains (generated worlds) — or, after `leafify`, the atoms computed for a
    /// real leaf; `src` is the leaf's concrete syntax when it came from a real pattern
    Cls { set: Vec<u32>, src: Option<String> },
    Cat(Vec<Re>),
    Alt(Vec<Re>),
    Star(Box<Re>),
    Plus(Box<Re>),
    Opt(Box<Re>),
    Rep(Box<Re>, u32, i64),
    /// a construct scnr documents as unsupported (C15); the string says which
    Unsup(String),
    /// the pattern text is not valid regex syntax
    SynErr,
}

impl Re {
    pub fn from_json(v: &Value) -> Result<Re, String> {
        let op = v["op"].as_str().ok_or_else(|| format!("no op in {v}"))?;
        let sub = |k: &str| -> Result<Box<Re>, String> { Ok(Box::new(Re::from_json(&v[k])?)) };
        let list = || -> Result<Vec<Re>, String> {
            v["xs"].as_array().ok_or("xs")?.iter().map(Re::from_json).collect()
        };
        Ok(match op {
            "eps" => Re::Eps,
            "cls" => Re::Cls {
                set: v["set"].as_array().ok_or("set")?.iter().map(|x| x.as_u64().unwrap() as u32).collect(),
                src: v.get("src").and_then(|s| s.as_str()).map(|s| s.to_string()),
            },
            "cat" => Re::Cat(list()?),
            "alt" => Re::Alt(list()?),
            "star" => Re::Star(sub("l")?),
            "plus" => Re::Plus(sub("l")?),
            "opt" => Re::Opt(sub("l")?),
            "rep" => Re::Rep(sub("l")?, v["min"].as_u64().ok_or("min")? as u32, v["max"].as_i64().ok_or("max")?),
            "unsup" => Re::Unsup(v["what"].as_str().unwrap_or("").to_string()),
            "synerr" => Re::SynErr,
            _ => return Err(format!("unknown op {op}")),
        })
    }

    pub fn to_json(&self) -> Value {
        match self {
            Re::Eps => json!({"op": "eps"}),
            Re::Cls { set, .. } => json!({"op": "cls", "set": set}),
            Re::Cat(xs) => json!({"op": "cat", "xs": xs.iter().map(|x| x.to_json()).collect::<Vec<_>>()}),
            Re::Alt(xs) => json!({"op": "alt", "xs": xs.iter().map(|x| x.to_json()).collect::<Vec<_>>()}),
            Re::Star(l) => json!({"op": "star", "l": l.to_json()}),
            Re::Plus(l) => json!({"op": "plus", "l": l.to_json()}),
            Re::Opt(l) => json!({"op": "opt", "l": l.to_json()}),
            Re::Rep(l, m, n) => json!({"op": "rep", "l": l.to_json(), "min": m, "max": n}),
            Re::Unsup(w) => json!({"op": "unsup", "what": w}),
            Re::SynErr => json!({"op": "synerr"}),
        }
    }

    /// Concrete syntax. `syms[k-1]` is the character of atom k.
    pub fn print(&self, syms: &[char]) -> String {
        match self {
            Re::Eps => "()".to_string(),
            Re::Cls { set, src } => {
                if let Some(s) = src {
                    return s.clone();
                }
                if set.len() == 1 {
                    lit(syms[set[0] as usize - 1])
                } else {
                    let mut s = String::from("[");
                    for a in set {
                        s.push_str(&class_lit(syms[*a as usize - 1]));
                    }
                    s.push(']');
                    s
                }
            }
            Re::Cat(xs) => {
                if xs.is_empty() {
                    "()".to_string()
                } else {
                    xs.iter().map(|x| x.print_in_cat(syms)).collect()
                }
            }
            Re::Alt(xs) => xs
                .iter()
                .map(|x| match x {
                    Re::Eps => String::new(),
                    Re::Alt(_) => format!("({})", x.print(syms)),
                    _ => x.print(syms),
                })
                .collect::<Vec<_>>()
                .join("|"),
            Re::Star(l) => format!("{}*", l.print_operand(syms)),
            Re::Plus(l) => format!("{}+", l.print_operand(syms)),
            Re::Opt(l) => format!("{}?", l.print_operand(syms)),
            Re::Rep(l, m, n) => {
                let o = l.print_operand(syms);
                if *n == -1 {
                    format!("{o}{{{m},}}")
                } else if *n == *m as i64 {
                    format!("{o}{{{m}}}")
                } else {
                    format!("{o}{{{m},{n}}}")
                }
            }
            Re::Unsup(w) => w.clone(),
            Re::SynErr => "(".to_string(),
        }
    }

    /// A whole pattern: the empty regex is the empty string.
    pub fn print_top(&self, syms: &[char]) -> String {
        match self {
            Re::Eps => String::new(),
            _ => self.print(syms),
        }
    }

    fn print_in_cat(&self, syms: &[char]) -> String {
        match self {
            Re::Alt(_) => format!("({})", self.print(syms)),
            _ => self.print(syms),
        }
    }

    fn print_operand(&self, syms: &[char]) -> String {
        match self {
            Re::Cls { .. } => self.print(syms),
            Re::Eps => "()".to_string(),
            _ => format!("({})", self.print(syms)),
        }
    }
}

pub fn lit(c: char) -> String {
    match c {
        '\n' => "\\n".to_string(),
        '\r' => "\\r".to_string(),
        '\t' => "\\t".to_string(),
        _ => regex_syntax::escape(&c.to_string()),
    }
}

pub fn class_lit(c: char) -> String {
    match c {
        '\n' => "\\n".to_string(),
        '\r' => "\\r".to_string(),
        '\t' => "\\t".to_string(),
        c if c.is_ascii() && !c.is_ascii_alphanumeric() && c != ' ' && c != '_' => format!("\\{c}"),
        _ => c.to_string(),
    }
}

/// Decode a symbol table entry: a single character or "U+XXXX".
pub fn sym_char(ch: &str) -> char {
    if let Some(hex) = ch.strip_prefix("U+") {
        char::from_u32(u32::from_str_radix(hex, 16).unwrap()).unwrap()
    } else {
        let mut it = ch.chars();
        let c = it.next().unwrap();
        assert!(it.next().is_none(), "symbol {ch:?} is not a single character");
        c
    }
}
