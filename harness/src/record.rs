//! Direction 2 (code -> spec): drives the real code with seeded random configurations, inputs
//! and call histories in REAL regex syntax (far outside what TLC can enumerate), and writes
//!   tables.json : {"cfgs": [...], "inputs": [...]}      (the World of spec/Trace_Api.tla)
//!   trace.ndjson: one event per public call, logged at its return, with arguments and result
//!   meta.json   : per trace, the concrete configuration and inputs (for violation reports)
//! TLC then decides whether the recorded execution is a behaviour of the specification.

use crate::exec::World;
use crate::model::CfgSpec;
use crate::parse::{atomise, nullable, parse_pattern, supported, RealMode, RealPat};
use rand::prelude::*;
use serde_json::{json, Value};
use std::collections::BTreeSet;
use std::io::Write;

pub struct Profile {
    pub name: &'static str,
    pub max_modes: usize,
    pub max_pats: usize,
    pub la_prob: f64,
    pub depth: u32,
    pub min_len: usize,
    pub max_len: usize,
    pub min_ops: usize,
    pub max_ops: usize,
    pub max_iters: usize,
    /// weights: next, nextpos, peek, advance, setoffset, setmode, position, newiter, scsetmode, modename
    pub w: [u32; 10],
    pub back_only: bool,
    pub start_offset: bool,
    pub drain: bool,
    pub nullable_heavy: bool,
    pub min_pats: usize,
}

pub fn profile(name: &str) -> Profile {
    let base = Profile {
        name: "c01", max_modes: 1, max_pats: 6, la_prob: 0.0, depth: 3, min_len: 10, max_len: 120, min_ops: 0,
        max_ops: 0, max_iters: 1, w: [1, 0, 0, 0, 0, 0, 0, 0, 0, 0], back_only: false, start_offset: false,
        drain: true, nullable_heavy: false, min_pats: 1,
    };
    match name {
        "c01" => base,
        "c04" => Profile { name: "c04", max_pats: 4, la_prob: 0.5, max_len: 40, min_ops: 5, max_ops: 40,
            w: [8, 0, 2, 1, 2, 0, 0, 0, 0, 0], start_offset: true, drain: false, depth: 2, ..base },
        "c05" => Profile { name: "c05", max_pats: 5, la_prob: 0.6, max_len: 40, min_ops: 5, max_ops: 40,
            w: [10, 0, 2, 0, 1, 0, 0, 0, 0, 0], drain: false, depth: 2, min_pats: 2, ..base },
        "c06" => Profile { name: "c06", max_modes: 5, max_pats: 4, la_prob: 0.1, max_len: 60, min_ops: 20, max_ops: 120,
            w: [10, 0, 3, 1, 0, 3, 0, 1, 1, 1], max_iters: 2, drain: false, depth: 2, ..base },
        "c07" => Profile { name: "c07", max_modes: 2, max_pats: 4, la_prob: 0.2, max_len: 30, min_ops: 10, max_ops: 80,
            w: [12, 2, 2, 1, 1, 1, 1, 0, 0, 0], drain: false, depth: 3, nullable_heavy: true, min_len: 0, ..base },
        "c09" => Profile { name: "c09", max_modes: 1, max_pats: 4, la_prob: 0.0, max_len: 80, min_ops: 10, max_ops: 80,
            w: [3, 8, 0, 0, 3, 0, 6, 0, 0, 0], back_only: true, drain: false, depth: 2, ..base },
        "c10" => Profile { name: "c10", max_modes: 3, max_pats: 4, la_prob: 0.25, max_len: 60, min_ops: 10, max_ops: 100,
            w: [8, 0, 4, 4, 5, 2, 0, 0, 0, 0], start_offset: true, drain: false, depth: 2, ..base },
        "drift" => Profile { name: "drift", max_modes: 2, max_pats: 4, la_prob: 0.1, max_len: 50, min_ops: 10, max_ops: 60,
            w: [8, 0, 3, 3, 4, 1, 2, 0, 0, 0], start_offset: true, drain: false, depth: 2, ..base },
        "c11" => Profile { name: "c11", max_modes: 3, max_pats: 4, la_prob: 0.15, max_len: 50, min_ops: 10, max_ops: 80,
            w: [6, 0, 10, 2, 1, 2, 0, 0, 0, 0], drain: false, depth: 2, ..base },
        "c12" => Profile { name: "c12", max_modes: 3, max_pats: 4, la_prob: 0.15, max_len: 40, min_ops: 20, max_ops: 120,
            w: [10, 1, 3, 1, 2, 3, 1, 3, 2, 0], max_iters: 5, drain: false, depth: 2, ..base },
        _ => panic!("harness: unknown profile {name}"),
    }
}

// (U+040A and U+4E0A: characters whose low byte is the line feed's)
const LIT_POOL: &[&str] = &["a", "b", "c", "x", "0", "1", "_", "-", " ", "é", "€", "😀", "\\n", "\\.", "\\+", "Њ", "上"];
const CLASS_POOL: &[&str] = &[
    "[a-c]", "[b-x]", "[ac]", "[^a]", "[^\\n]", "\\d", "\\w", "\\s", ".", "[0-9a-f]", "[a-c&&b-x]", "[\\w--\\d]",
    "\\pL", "[[:alpha:]]", "[é€]", "[a-cx-z]", "[^\\w\\s]", "\\D", "[\\s--\\n]", "[a-z0-9_]", "[\\u{80}-\\u{10FFFF}]",
    "\\PL", "\\p{Lowercase}", "\\P{Lowercase}", "\\W", "\\S", "[^a-c]", "[A-C]",
];
const INPUT_ALPHABET: &[char] =
    &['a', 'b', 'c', 'x', 'z', '0', '1', '9', '_', '-', ' ', '\n', 'é', '€', '😀', '!', 'Z', '.', '+', '\t', 'Њ', '上', '\r'];

fn gen_leaf(r: &mut StdRng) -> String {
    if r.gen_bool(0.55) {
        LIT_POOL.choose(r).unwrap().to_string()
    } else {
        CLASS_POOL.choose(r).unwrap().to_string()
    }
}

/// random pattern text (real syntax)
fn gen_re(r: &mut StdRng, d: u32, top: bool) -> String {
    if d == 0 || r.gen_bool(0.3) {
        if !top && r.gen_bool(0.05) {
            return "()".to_string();
        }
        return gen_leaf(r);
    }
    let group = |s: String| format!("({s})");
    match r.gen_range(0..9) {
        0..=2 => {
            let n = r.gen_range(2..=3);
            (0..n).map(|_| { let s = gen_re(r, d - 1, false); if s.contains('|') { group(s) } else { s } }).collect()
        }
        3 | 4 => {
            let n = r.gen_range(2..=3);
            let alts: Vec<String> = (0..n).map(|_| if r.gen_bool(0.1) { String::new() } else { gen_re(r, d - 1, false) }).collect();
            let s = alts.join("|");
            if top { s } else { group(s) }
        }
        5 => format!("{}*", group(gen_re(r, d - 1, false))),
        6 => format!("{}+", group(gen_re(r, d - 1, false))),
        7 => format!("{}?", group(gen_re(r, d - 1, false))),
        _ => {
            let m = r.gen_range(0..=2);
            let inner = group(gen_re(r, d - 1, false));
            match r.gen_range(0..3) {
                0 => format!("{inner}{{{m}}}"),
                1 => format!("{inner}{{{m},}}"),
                _ => format!("{inner}{{{m},{}}}", m + r.gen_range(0..=2)),
            }
        }
    }
}

pub fn gen_modes(r: &mut StdRng, p: &Profile) -> Vec<RealMode> {
    let nm = r.gen_range(1..=p.max_modes);
    let mut modes: Vec<RealMode> = vec![];
    for mi in 0..nm {
        let np = r.gen_range(p.min_pats..=p.max_pats);
        let mut tts: Vec<usize> = (0..15).collect();
        tts.shuffle(r);
        let mut pats = vec![];
        for k in 0..np {
            let mut pattern = gen_re(r, p.depth, true);
            if p.nullable_heavy && r.gen_bool(0.4) {
                pattern = ["a*", "()", "(a|)", "", "b?", "(a*)*", "x{0}", "[ab]*"].choose(r).unwrap().to_string();
            }
            let la = if r.gen_bool(p.la_prob) {
                let mut l = gen_re(r, 1, true);
                let mut tries = 0;
                while (nullable(&parse_pattern(&l)) || !supported(&parse_pattern(&l))) && tries < 50 {
                    l = gen_re(r, 1, true);
                    tries += 1;
                }
                if nullable(&parse_pattern(&l)) { None } else { Some((r.gen_bool(0.5), l)) }
            } else {
                None
            };
            pats.push(RealPat { pattern, tt: tts[k], la });
        }
        // now and then a mode has exactly the patterns of an earlier mode and differs from it only
        // in its transitions (compiled data shared between such modes must not include them)
        if mi > 0 && r.gen_bool(0.2) {
            pats = modes[r.gen_range(0..mi)].pats.clone();
        }
        let mut trans: Vec<(usize, usize)> = vec![];
        if nm > 1 {
            for q in pats.iter() {
                if r.gen_bool(0.45) {
                    trans.push((q.tt, r.gen_range(0..nm)));
                }
            }
        }
        trans.sort();
        trans.dedup_by_key(|t| t.0);
        modes.push(RealMode { name: format!("M{mi}"), pats, trans });
    }
    modes
}

/// Lets several patterns of a mode report the same token type (automaton-level checks C02/C03
/// only: C02 speaks of the SET of token types that have a matching pattern). Scanning-level
/// histories keep token types distinct: pattern.rs documents the token type as the pattern's
/// identity, and the code resolves ties and lookaheads per token type (DESIGN 0.2).
pub fn share_types(r: &mut StdRng, modes: &mut [RealMode]) {
    for m in modes.iter_mut() {
        if r.gen_bool(0.4) {
            let plain: Vec<usize> = (0..m.pats.len()).filter(|k| m.pats[*k].la.is_none()).collect();
            for _ in 0..r.gen_range(1..=2) {
                if plain.len() >= 2 {
                    let (x, y) = (*plain.choose(r).unwrap(), *plain.choose(r).unwrap());
                    m.pats[y].tt = m.pats[x].tt;
                }
            }
            m.trans.retain(|t| m.pats.iter().any(|p| p.tt == t.0));
        }
    }
}

fn gen_input(r: &mut StdRng, p: &Profile) -> String {
    let len = r.gen_range(p.min_len..=p.max_len);
    // a biased alphabet per input so that runs and repeats occur
    let k = r.gen_range(2..=INPUT_ALPHABET.len());
    let alpha: Vec<char> = INPUT_ALPHABET.choose_multiple(r, k).cloned().collect();
    (0..len).map(|_| *alpha.choose(r).unwrap()).collect()
}

pub struct Batch {
    pub cfgs: Vec<Value>,
    pub inputs: Vec<Value>,
    pub events: Vec<Value>,
    pub meta: Vec<Value>,
}

impl Batch {
    pub fn new() -> Self {
        Batch { cfgs: vec![], inputs: vec![], events: vec![], meta: vec![] }
    }

    pub fn add_input(&mut self, text: &str, chars: &[char], atom_of_char: &[u32]) -> usize {
        let mut w = vec![];
        let mut off = vec![0usize];
        let mut nl = vec![];
        for c in text.chars() {
            let k = chars.iter().position(|x| *x == c).expect("char of input not atomised");
            w.push(atom_of_char[k]);
            off.push(off.last().unwrap() + c.len_utf8());
            nl.push(c == '\n');
        }
        self.inputs.push(json!({"w": w, "off": off, "nl": nl}));
        self.inputs.len()
    }

    pub fn write(&self, dir: &str) {
        std::fs::create_dir_all(dir).unwrap();
        std::fs::write(format!("{dir}/tables.json"), serde_json::to_string(&json!({"cfgs": self.cfgs, "inputs": self.inputs})).unwrap()).unwrap();
        let mut f = std::io::BufWriter::new(std::fs::File::create(format!("{dir}/trace.ndjson")).unwrap());
        for e in &self.events {
            writeln!(f, "{}", serde_json::to_string(e).unwrap()).unwrap();
        }
        std::fs::write(format!("{dir}/meta.json"), serde_json::to_string(&self.meta).unwrap()).unwrap();
    }
}

pub fn cfg_to_json(c: &CfgSpec) -> Value {
    json!({"modes": c.modes.iter().map(|m| json!({
        "name": m.name,
        "pats": m.pats.iter().map(|p| json!({
            "re": p.re.to_json(), "tt": p.tt,
            "la": match &p.la { None => json!({"kind": "none"}), Some((true, l)) => json!({"kind": "pos", "re": l.to_json()}), Some((false, l)) => json!({"kind": "neg", "re": l.to_json()}) },
        })).collect::<Vec<_>>(),
        "trans": m.trans.iter().map(|t| json!([t.0, t.1])).collect::<Vec<_>>(),
    })).collect::<Vec<_>>()})
}

/// the modes as the scanning-level legs hand them to the API (token types concretised, ttmap)
pub fn describe_modes(modes: &[RealMode]) -> Value {
    describe_with(modes, crate::ttmap::conc)
}

/// the modes with token types as written (automaton-level legs)
pub fn describe_modes_raw(modes: &[RealMode]) -> Value {
    describe_with(modes, |t| t)
}

fn describe_with(modes: &[RealMode], f: fn(usize) -> usize) -> Value {
    json!(modes.iter().map(|m| json!({
        "name": m.name,
        "patterns": m.pats.iter().map(|p| json!({"pattern": p.pattern, "token_type": f(p.tt),
            "lookahead": p.la.as_ref().map(|(pos, l)| json!({"is_positive": pos, "pattern": l}))})).collect::<Vec<_>>(),
        "transitions": m.trans.iter().map(|(t, m)| (f(*t), *m)).collect::<Vec<_>>(),
    })).collect::<Vec<_>>())
}

/// Drives one random history on `modes` and appends it to the batch.
pub fn record_one(b: &mut Batch, r: &mut StdRng, p: &Profile, modes: &[RealMode], texts: &[String], trace_id: usize) {
    let mut charset: BTreeSet<char> = BTreeSet::new();
    for t in texts {
        charset.extend(t.chars());
    }
    let chars: Vec<char> = charset.into_iter().collect();
    let (spec, atom_of_char) = match atomise(modes, &chars) {
        Ok(x) => x,
        Err(e) => {
            // The only way atomise fails on a supported configuration is a one-class pattern whose
            // tokens are not single whole characters (or that does not build): that is behaviour
            // of the code, not of the harness. It is logged as an event no action of the
            // specification explains, so the trace is rejected and reported.
            let first_event = b.events.len() + 1;
            b.events.push(json!({"op": "reset", "trace": trace_id}));
            b.events.push(json!({"op": "leaf-measurement-failed", "what": e}));
            b.meta.push(json!({"trace": trace_id, "first_event": first_event, "last_event": b.events.len(),
                "modes": describe_modes(modes), "inputs": texts}));
            return;
        }
    };
    let first_event = b.events.len() + 1;
    b.cfgs.push(cfg_to_json(&spec));
    let ci = b.cfgs.len();
    let input_ids: Vec<usize> = texts.iter().map(|t| b.add_input(t, &chars, &atom_of_char)).collect();
    b.events.push(json!({"op": "reset", "trace": trace_id}));

    // build (through the public API, real syntax)
    // mode names concretised (ttmap::conc_name): what mode_name reports is mapped back in exec.rs
    let renamed: Vec<_> = modes.iter().map(|m| { let mut x = m.clone(); x.name = crate::ttmap::conc_name(&x.name); x }).collect();
    let cached = r.gen_bool(if p.max_modes > 1 { 0.7 } else { 0.3 });
    // ScannerMode::new is library code too: a panic in it is data, not a harness failure
    let built = std::panic::catch_unwind(std::panic::AssertUnwindSafe(|| {
        let sm = crate::parse::to_scanner_modes(&renamed);
        crate::parse::build_via(&sm, cached).map(|sc| (sc, sm))
    }));
    let syms: Vec<char> = vec![];
    let mut w = World::new(&syms);
    w.log_state = p.name == "drift";
    match built {
        Err(e) => {
            b.events.push(json!({"op": "panic", "during": "build", "msg": crate::exec::panic_msg(e)}));
        }
        Ok(Err(e)) => {
            b.events.push(json!({"op": "build", "cfg": ci, "cached": cached, "ok": false, "err": e.to_string()}));
        }
        Ok(Ok((sc, sm))) => {
            b.events.push(json!({"op": "build", "cfg": ci, "cached": cached, "ok": true}));
            w.scanners.push(sc);
            // C12: iterators of two scanners that share one cached compilation, interleaved
            if p.name == "c12" && cached && r.gen_bool(0.6) {
                match scnr::ScannerBuilder::new().add_scanner_modes(&sm).build() {
                    Ok(sc2) => {
                        b.events.push(json!({"op": "build", "cfg": ci, "cached": true, "ok": true}));
                        w.scanners.push(sc2);
                    }
                    Err(e) => b.events.push(json!({"op": "build", "cfg": ci, "cached": true, "ok": false, "err": e.to_string()})),
                }
            }
            drive(b, r, p, &mut w, modes.len(), texts, &input_ids);
        }
    }
    b.meta.push(json!({"trace": trace_id, "first_event": first_event, "last_event": b.events.len(),
        "modes": describe_modes(modes), "inputs": texts}));
}

struct ItTrack {
    text: usize,
    peeked: Vec<usize>,
    hw: usize,
    max_off: usize,
    dead: bool,
    pos: bool,
}

fn boundaries(s: &str) -> Vec<usize> {
    s.char_indices().map(|(b, _)| b).chain([s.len()]).collect()
}

fn drive(b: &mut Batch, r: &mut StdRng, p: &Profile, w: &mut World, n_modes: usize, texts: &[String], input_ids: &[usize]) {
    let cfg_of = |_: u64| -> Option<CfgSpec> { None };
    let mut its: Vec<ItTrack> = vec![];
    let mut new_iter = |b: &mut Batch, r: &mut StdRng, w: &mut World, its: &mut Vec<ItTrack>| {
        let ti = r.gen_range(0..texts.len());
        let text = &texts[ti];
        let off = if p.start_offset && r.gen_bool(0.5) {
            let bs = boundaries(text);
            if r.gen_bool(0.1) { if p.name == "drift" || r.gen_bool(0.5) { text.len() + 2 } else { 1_000_000 + r.gen_range(0..3) } } else { *bs.choose(r).unwrap() }
        } else { 0 };
        // WithPositions wrapper only where the profile never peeks/advances on it
        let pos = p.w[1] > 0 && p.w[2] == 0 && p.w[3] == 0;
        let sc_id = if w.scanners.len() > 1 { r.gen_range(1..=w.scanners.len()) } else { 1 };
        let ev = json!({"op": "newiter", "sc": sc_id, "text": text, "off": off, "with": off == 0 && p.start_offset && r.gen_bool(0.3)});
        let obs = w.exec(&ev, &cfg_of, pos);
        if obs.get("panic").is_some() {
            b.events.push(json!({"op": "panic", "during": "newiter", "msg": obs["panic"]}));
            return false;
        }
        let mut ne = json!({"op": "newiter", "sc": sc_id, "inp": input_ids[ti], "off": off});
        if let Some(st) = obs.get("st") {
            ne["st"] = st.clone();
        }
        b.events.push(ne);
        its.push(ItTrack { text: ti, peeked: vec![], hw: 0, max_off: text.len(), dead: false, pos });
        true
    };
    if !new_iter(b, r, w, &mut its) {
        return;
    }
    if p.drain {
        // plain scan to the end (+ a few extra calls after None)
        let mut extra = 3;
        loop {
            let ev = json!({"op": "next", "it": 1});
            let obs = w.exec(&ev, &cfg_of, false);
            if obs.get("panic").is_some() {
                b.events.push(json!({"op": "panic", "during": "next", "it": 1, "msg": obs["panic"]}));
                return;
            }
            let none = obs["res"].as_array().map(|a| a.is_empty()).unwrap_or(true);
            b.events.push(json!({"op": "next", "it": 1, "res": obs["res"], "mode": obs["mode"]}));
            if none {
                extra -= 1;
                if extra == 0 { break; }
            }
        }
        return;
    }
    let nops = r.gen_range(p.min_ops..=p.max_ops);
    let total: u32 = p.w.iter().sum();
    for _ in 0..nops {
        let live: Vec<usize> = (0..its.len()).filter(|k| !its[*k].dead).collect();
        if live.is_empty() { break; }
        let h = *live.choose(r).unwrap();
        let mut pick = r.gen_range(0..total);
        let mut op = 0;
        for (k, wt) in p.w.iter().enumerate() {
            if pick < *wt { op = k; break; }
            pick -= wt;
        }
        let text = texts[its[h].text].clone();
        let it_id = h + 1;
        let (ev, logged): (Value, Box<dyn Fn(&Value) -> Value>) = match op {
            0 => (json!({"op": "next", "it": it_id}), Box::new(move |o| json!({"op": "next", "it": it_id, "res": o["res"], "mode": o["mode"]}))),
            1 => (json!({"op": "nextpos", "it": it_id}), Box::new(move |o| json!({"op": "nextpos", "it": it_id, "res": o["res"], "mode": o["mode"], "sp": o["sp"], "ep": o["ep"]}))),
            2 => {
                if its[h].pos { continue; }
                // 1_000_000 stands for usize::MAX ("everything that is left"; exec.rs concretises it)
                // (only on short inputs: the specification lists ALL remaining tokens for such a peek)
                let n = if text.len() > 400 { *[0usize, 1, 1, 2, 2, 3, 5].choose(r).unwrap() } else { *[0usize, 1, 1, 2, 2, 3, 5, 1_000_000].choose(r).unwrap() };
                (json!({"op": "peek", "it": it_id, "n": n}), Box::new(move |o| json!({"op": "peek", "it": it_id, "n": n, "kind": o["kind"], "toks": o["toks"], "target": o["target"], "mode": o["mode"]})))
            }
            3 => {
                if its[h].pos || its[h].peeked.is_empty() { continue; }
                let pp = *its[h].peeked.choose(r).unwrap();
                (json!({"op": "advance", "it": it_id, "p": pp}), Box::new(move |o| json!({"op": "advance", "it": it_id, "p": pp, "ret": o["ret"], "mode": o["mode"]})))
            }
            4 => {
                let bs = boundaries(&text);
                let o = if p.back_only {
                    let back: Vec<usize> = bs.iter().cloned().filter(|x| *x <= its[h].hw).collect();
                    *back.choose(r).unwrap()
                } else if r.gen_bool(0.08) { if p.name == "drift" || r.gen_bool(0.5) { text.len() + 3 } else { 1_000_000 + r.gen_range(0..3) } } else { *bs.choose(r).unwrap() };
                (json!({"op": "setoffset", "it": it_id, "o": o}), Box::new(move |ob| json!({"op": "setoffset", "it": it_id, "o": o, "mode": ob["mode"]})))
            }
            5 => {
                let m = r.gen_range(0..n_modes);
                (json!({"op": "setmode", "it": it_id, "m": m}), Box::new(move |o| json!({"op": "setmode", "it": it_id, "m": m, "mode": o["mode"]})))
            }
            6 => {
                let bs: Vec<usize> = boundaries(&text).into_iter().filter(|x| *x <= its[h].hw).collect();
                let o = *bs.choose(r).unwrap();
                (json!({"op": "position", "it": it_id, "o": o}), Box::new(move |ob| json!({"op": "position", "it": it_id, "o": o, "res": ob["res"], "mode": ob["mode"]})))
            }
            7 => {
                if its.len() < p.max_iters { new_iter(b, r, w, &mut its); }
                continue;
            }
            8 => {
                let m = r.gen_range(0..n_modes);
                let sc_id = if w.scanners.len() > 1 { r.gen_range(1..=w.scanners.len()) } else { 1 };
                (json!({"op": "scsetmode", "sc": sc_id, "m": m}), Box::new(move |o| json!({"op": "scsetmode", "sc": sc_id, "m": m, "scmode": o["scmode"]})))
            }
            _ => {
                let k = r.gen_range(0..n_modes + 2);
                (json!({"op": "modename", "it": it_id, "k": k}), Box::new(move |o| json!({"op": "modename", "it": it_id, "k": k, "res": o["res"]})))
            }
        };
        let obs = w.exec(&ev, &cfg_of, false);
        if obs.get("panic").is_some() {
            b.events.push(json!({"op": "panic", "during": ev["op"], "it": it_id, "args": ev, "msg": obs["panic"]}));
            its[h].dead = true;
            break;
        }
        let mut le = logged(&obs);
        if let Some(st) = obs.get("st") {
            le["st"] = st.clone();
        }
        b.events.push(le);
        // harness-side bookkeeping needed to stay inside the enabled calls of the specification
        match op {
            0 | 1 => {
                its[h].peeked.clear();
                match obs["res"].as_array() {
                    Some(a) if a.len() == 3 => its[h].hw = its[h].hw.max(a[2].as_u64().unwrap() as usize),
                    _ => its[h].hw = its[h].max_off,
                }
            }
            2 => its[h].peeked = obs["toks"].as_array().unwrap().iter().map(|t| t[2].as_u64().unwrap() as usize).collect(),
            3 => {
                its[h].hw = its[h].hw.max(ev["p"].as_u64().unwrap() as usize);
                its[h].peeked.clear();
            }
            4 => its[h].peeked.clear(),
            _ => {}
        }
    }
}

const SOUP: &[&str] = &[
    "(", ")", "[", "]", "{", "}", "|", "*", "+", "?", ".", "^", "$", "\\", "-", "&&", "~~", "--", ":", "=", "!", "<", ">", ",",
    "0", "1", "2", "9", "a", "b", "c", "d", "w", "s", "p", "P", "\\d", "\\w", "\\s", "\\D", "\\p", "\\P", "(?", "(?:", "(?i)", "(?=",
    "(?!", "(?<", "[^", "[:alpha:]", "[:^digit:]", "\\b", "\\B", "\\A", "\\z", "\\pL", "\\pN", "\\pX", "\\p{Greek}", "\\p{Lowercase}",
    "\\p{sc=Greek}", "\\P{XID_Start}", "*?", "+?", "??", "{2}", "{1,}", "{1,2}", "{1,2}?", "{,2}", "\\x41", "\\u{41}", "\\n",
    "\\.", "\\-", "é", "€", "😀", " ", "(?P<n>", "(?x)", "(?-u)", "\\", "#", "(?-i:", "(?i:", "(?-u:", "(?s-m:", "(?-", "i:", "-s:",
];

fn gen_c15_pattern(r: &mut StdRng) -> String {
    if r.gen_bool(0.4) {
        let n = r.gen_range(1..=10);
        (0..n).map(|_| *SOUP.choose(r).unwrap()).collect()
    } else {
        // a structured pattern with a few token-level edits
        let base = gen_re(r, 3, true);
        let mut toks: Vec<String> = base.chars().map(|c| c.to_string()).collect();
        for _ in 0..r.gen_range(0..=2) {
            let t = SOUP.choose(r).unwrap().to_string();
            if toks.is_empty() || r.gen_bool(0.5) {
                let i = r.gen_range(0..=toks.len());
                toks.insert(i, t);
            } else if r.gen_bool(0.5) {
                let i = r.gen_range(0..toks.len());
                toks[i] = t;
            } else {
                let i = r.gen_range(0..toks.len());
                toks.remove(i);
            }
        }
        toks.concat()
    }
}

/// C15: one build of a configuration holding a random pattern string (as pattern or lookahead,
/// in the first or the second mode). The verdict is left to the specification: the harness only
/// translates the text into an AST (syntax error / unsupported / open / supported nodes).
fn record_c15(b: &mut Batch, r: &mut StdRng, trace_id: usize) {
    let mut text = gen_c15_pattern(r);
    // a third of the patterns get a long literal prefix of mixed 1-4 byte characters: whatever
    // build() does with the pattern text (error messages, keys, labels) sees long non-ASCII input
    if r.gen_bool(0.33) {
        let n = r.gen_range(10..=70);
        let prefix: String = (0..n).map(|_| *['a', 'b', 'z', '0', '_', 'ä', 'é', '€', '日', '😀'].choose(r).unwrap()).collect();
        text = format!("{prefix}{text}");
    }
    let place = r.gen_range(0..4);
    let good = |p: &str, tt: usize| RealPat { pattern: p.to_string(), tt, la: None };
    let modes: Vec<RealMode> = match place {
        0 => vec![RealMode { name: "M0".into(), pats: vec![good("a", 1), RealPat { pattern: text.clone(), tt: 2, la: None }], trans: vec![] }],
        1 => vec![
            RealMode { name: "M0".into(), pats: vec![good("a", 1)], trans: vec![(1, 1)] },
            RealMode { name: "M1".into(), pats: vec![RealPat { pattern: text.clone(), tt: 2, la: None }, good("b", 3)], trans: vec![] },
        ],
        2 => vec![RealMode { name: "M0".into(), pats: vec![RealPat { pattern: "a".into(), tt: 1, la: Some((true, text.clone())) }, good("b", 2)], trans: vec![] }],
        _ => vec![
            RealMode { name: "M0".into(), pats: vec![good("a", 1)], trans: vec![] },
            RealMode { name: "M1".into(), pats: vec![RealPat { pattern: "b".into(), tt: 3, la: Some((false, text.clone())) }], trans: vec![] },
        ],
    };
    // specification-side configuration: ASTs only, leaves carry no atoms (nothing is scanned)
    let spec = crate::model::CfgSpec {
        modes: modes
            .iter()
            .map(|m| crate::model::ModeSpec {
                name: m.name.clone(),
                pats: m.pats.iter().map(|p| crate::model::PatSpec { re: parse_pattern(&p.pattern), tt: p.tt, la: p.la.as_ref().map(|(pos, l)| (*pos, parse_pattern(l))) }).collect(),
                trans: m.trans.clone(),
            })
            .collect(),
        simple: false,
    };
    let first_event = b.events.len() + 1;
    b.cfgs.push(cfg_to_json(&spec));
    let ci = b.cfgs.len();
    b.events.push(json!({"op": "reset", "trace": trace_id}));
    let sm = crate::parse::to_scanner_modes(&modes);
    let cached = r.gen_bool(0.5);
    let built = std::panic::catch_unwind(std::panic::AssertUnwindSafe(|| {
        crate::parse::build_via(&sm, cached).map(|_| ())
    }));
    match built {
        Err(e) => b.events.push(json!({"op": "panic", "during": "build", "msg": crate::exec::panic_msg(e)})),
        Ok(res) => b.events.push(json!({"op": "build", "cfg": ci, "cached": cached, "ok": res.is_ok(),
            "err": res.err().map(|e| e.to_string()).unwrap_or_default()})),
    }
    b.meta.push(json!({"trace": trace_id, "first_event": first_event, "last_event": b.events.len(),
        "modes": describe_modes(&modes), "inputs": []}));
}

/// The repository's own configurations on the repository's own inputs (sliced to `max_chars`
/// characters): plain scans, plus a second pass with positions for the multi-line ones.
fn record_corpus(b: &mut Batch, r: &mut StdRng, max_chars: usize) -> usize {
    let mut trace = 0;
    let drain = Profile { drain: true, ..profile("c01") };
    let hist = Profile { max_iters: 1, ..profile("c10") };
    for f in crate::dump::corpus_files() {
        let modes = crate::dump::modes_from_json_file(&f);
        let input_path = if f.ends_with("veryl_modes.json") { "/repo/scnr/benches/veryl_input.veryl".to_string() } else { f.replace(".json", ".input") };
        let mut texts = vec![];
        if let Ok(t) = std::fs::read_to_string(&input_path) {
            let n = t.chars().count();
            // a slice from the start and one from a random position (whole input if short enough)
            texts.push(t.chars().take(max_chars).collect::<String>());
            if n > max_chars {
                let start = r.gen_range(0..n - max_chars);
                texts.push(t.chars().skip(start).take(max_chars).collect::<String>());
            }
        }
        if f.ends_with("parol.json") {
            if let Ok(t) = std::fs::read_to_string("/repo/scnr/benches/input_1.par") {
                texts.push(t.chars().take(max_chars).collect::<String>());
            }
        }
        for t in texts {
            trace += 1;
            record_one(b, r, &drain, &modes, &[t.clone()], trace);
            trace += 1;
            record_one(b, r, &hist, &modes, &[t.chars().take(max_chars / 4).collect()], trace);
        }
    }
    trace
}

/// `retrace <violation file> <out dir>`: re-drives the calls of a rejected trace (same
/// configuration in real syntax, same inputs, same operations and arguments) against the code
/// as it is now and records the new execution for validation.
pub fn main_retrace(args: &[String]) -> i32 {
    let v: Value = serde_json::from_str(&std::fs::read_to_string(&args[0]).expect("violation file")).expect("json");
    let modes: Vec<RealMode> = match v["configurations"].as_array() {
        Some(ms) => ms.iter().map(|m| RealMode {
            name: m["name"].as_str().unwrap_or("M").to_string(),
            pats: m["patterns"].as_array().unwrap().iter().map(|p| RealPat {
                pattern: p["pattern"].as_str().unwrap().to_string(), tt: p["token_type"].as_u64().unwrap() as usize,
                la: p.get("lookahead").filter(|l| !l.is_null()).map(|l| (l["is_positive"].as_bool().unwrap(), l["pattern"].as_str().unwrap().to_string())),
            }).collect(),
            trans: m["transitions"].as_array().unwrap().iter().map(|t| (t[0].as_u64().unwrap() as usize, t[1].as_u64().unwrap() as usize)).collect(),
        }).collect(),
        None => return 2,
    };
    let texts: Vec<String> = v["inputs"].as_array().unwrap().iter().map(|t| t.as_str().unwrap().to_string()).collect();
    let mut b = Batch::new();
    let mut charset: BTreeSet<char> = BTreeSet::new();
    for t in &texts {
        charset.extend(t.chars());
    }
    let chars: Vec<char> = charset.into_iter().collect();
    let (spec, atom_of_char) = match atomise(&modes, &chars) {
        Ok(x) => x,
        Err(e) => {
            b.events.push(json!({"op": "reset", "trace": 1}));
            b.events.push(json!({"op": "leaf-measurement-failed", "what": e}));
            b.meta.push(json!({"trace": 1, "first_event": 1, "last_event": 2, "modes": describe_modes(&modes), "inputs": texts}));
            b.write(&args[1]);
            return 0;
        }
    };
    b.cfgs.push(cfg_to_json(&spec));
    // inputs in the order the original trace numbered them: the original newiter events name them
    let orig_inputs: Vec<u64> = { let mut s: Vec<u64> = v["calls_specified"].as_array().unwrap().iter().filter(|e| e["op"] == "newiter").map(|e| e["inp"].as_u64().unwrap()).collect(); s.sort(); s.dedup(); s };
    let input_ids: Vec<usize> = texts.iter().map(|t| b.add_input(t, &chars, &atom_of_char)).collect();
    let map_inp = |orig: u64| -> usize { orig_inputs.iter().position(|x| *x == orig).map(|k| k.min(texts.len() - 1)).unwrap_or(0) };
    let syms: Vec<char> = vec![];
    let mut w = World::new(&syms);
    let cfg_of = |_: u64| -> Option<CfgSpec> { None };
    b.events.push(json!({"op": "reset", "trace": 1}));
    for e in v["calls_specified"].as_array().unwrap() {
        let op = e["op"].as_str().unwrap_or("");
        match op {
            "reset" => {}
            "build" => {
                let cached = e["cached"].as_bool().unwrap_or(false);
                let sm = crate::parse::to_scanner_modes(&modes);
                let built = std::panic::catch_unwind(std::panic::AssertUnwindSafe(|| {
                    crate::parse::build_via(&sm, cached)
                }));
                match built {
                    Err(p) => { b.events.push(json!({"op": "panic", "during": "build", "msg": crate::exec::panic_msg(p)})); break; }
                    Ok(Err(err)) => { b.events.push(json!({"op": "build", "cfg": 1, "cached": cached, "ok": false, "err": err.to_string()})); break; }
                    Ok(Ok(sc)) => { b.events.push(json!({"op": "build", "cfg": 1, "cached": cached, "ok": true})); w.scanners.push(sc); }
                }
            }
            "newiter" => {
                let k = map_inp(e["inp"].as_u64().unwrap());
                let has = |o: &str| v["calls_specified"].as_array().unwrap().iter().any(|x| x["op"] == o);
                let pos = has("nextpos") && !has("peek") && !has("advance");
                let obs = w.exec(&json!({"op": "newiter", "sc": e["sc"], "text": texts[k], "off": e["off"]}), &cfg_of, pos);
                if obs.get("panic").is_some() { b.events.push(json!({"op": "panic", "during": "newiter", "msg": obs["panic"]})); break; }
                b.events.push(json!({"op": "newiter", "sc": e["sc"], "inp": input_ids[k], "off": e["off"]}));
            }
            "panic" | "leaf-measurement-failed" => {
                // re-issue the call that panicked, if the record says which
                if let Some(a) = e.get("args") {
                    let obs = w.exec(a, &cfg_of, false);
                    let mut logged = a.clone();
                    for (k2, v2) in obs.as_object().unwrap() { logged[k2] = v2.clone(); }
                    if obs.get("panic").is_some() { logged = json!({"op": "panic", "args": a, "msg": obs["panic"]}); }
                    b.events.push(logged);
                }
                break;
            }
            _ => {
                let obs = w.exec(e, &cfg_of, false);
                if obs.get("panic").is_some() {
                    b.events.push(json!({"op": "panic", "during": op, "args": e, "msg": obs["panic"]}));
                    break;
                }
                // arguments of the original event, results of this run
                let mut logged = json!({});
                for k2 in ["op", "it", "sc", "n", "m", "o", "p", "k"] {
                    if let Some(x) = e.get(k2) { logged[k2] = x.clone(); }
                }
                for (k2, v2) in obs.as_object().unwrap() { logged[k2] = v2.clone(); }
                b.events.push(logged);
            }
        }
    }
    b.meta.push(json!({"trace": 1, "first_event": 1, "last_event": b.events.len(), "modes": describe_modes(&modes), "inputs": texts}));
    b.write(&args[1]);
    0
}

/// C13: two VALID configurations that differ only in two token types and whose `Vec<ScannerMode>`
/// have the same FxHash (the hasher of the scanner cache). FxHash adds each word and multiplies by
/// an odd constant K, so moving one token type by +1 and a later one by -K^n (n = number of words
/// hashed between them, found by trial) leaves the hash unchanged. Both are built through the
/// cache and scanned; a cache that identifies configurations by their hash hands the second one
/// the first one's compilation. Returns false if no collision could be constructed (another
/// hasher): the leg then has nothing to say.
fn record_collision(b: &mut Batch) -> bool {
    use std::hash::BuildHasher;
    const K: u64 = 0xf135_7aea_2e62_a9c5;
    let mk = |t1: usize, t2: usize| {
        vec![RealMode { name: "M0".into(), trans: vec![],
            pats: vec![RealPat { pattern: "a".into(), tt: t1, la: None }, RealPat { pattern: "b+".into(), tt: t2, la: None }, RealPat { pattern: "c".into(), tt: 3, la: None }] }]
    };
    let (a1, a2) = (0x5000_0000_0000_0007usize, 0x6000_0000_0000_0001usize);
    let hash = |x: usize, y: usize| {
        crate::ttmap::set_extra(&[(1001, x), (1002, y)]);
        let sm = crate::parse::to_scanner_modes(&mk(1001, 1002));
        rustc_hash::FxBuildHasher.hash_one(&sm[..])
    };
    let ha = hash(a1, a2);
    let mut found = None;
    let mut kn: u64 = 1;
    for _n in 1..=16 {
        kn = kn.wrapping_mul(K);
        let (b1, b2) = (a1 + 1, (a2 as u64).wrapping_sub(kn) as usize);
        if hash(b1, b2) == ha && b2 != a2 {
            found = Some((b1, b2));
            break;
        }
    }
    let Some((b1, b2)) = found else { return false };
    crate::ttmap::set_extra(&[(1001, a1), (1002, a2), (1003, b1), (1004, b2)]);
    let (ma, mb) = (mk(1001, 1002), mk(1003, 1004));
    let text = "abbcab".to_string();
    let chars: Vec<char> = vec!['a', 'b', 'c'];
    let first_event = b.events.len() + 1;
    b.events.push(json!({"op": "reset", "trace": 1}));
    let syms: Vec<char> = vec![];
    let mut w = World::new(&syms);
    let cfg_of = |_: u64| -> Option<CfgSpec> { None };
    for (k, m) in [&ma, &mb, &ma].iter().enumerate() {
        let (spec, am) = atomise(m, &chars).expect("atomise");
        b.cfgs.push(cfg_to_json(&spec));
        let ci = b.cfgs.len();
        let inp = b.add_input(&text, &chars, &am);
        let built = scnr::ScannerBuilder::new().add_scanner_modes(&crate::parse::to_scanner_modes(m)).build();
        match built {
            Ok(sc) => {
                b.events.push(json!({"op": "build", "cfg": ci, "cached": true, "ok": true}));
                w.scanners.push(sc);
            }
            Err(e) => {
                b.events.push(json!({"op": "build", "cfg": ci, "cached": true, "ok": false, "err": e.to_string()}));
                continue;
            }
        }
        let sc_id = w.scanners.len();
        let _ = w.exec(&json!({"op": "newiter", "sc": sc_id, "text": text, "off": 0}), &cfg_of, false);
        b.events.push(json!({"op": "newiter", "sc": sc_id, "inp": inp, "off": 0}));
        let it = w.iters.len();
        loop {
            let obs = w.exec(&json!({"op": "next", "it": it}), &cfg_of, false);
            if obs.get("panic").is_some() {
                b.events.push(json!({"op": "panic", "during": "next", "it": it, "msg": obs["panic"]}));
                break;
            }
            let none = obs["res"].as_array().map(|a| a.is_empty()).unwrap_or(true);
            b.events.push(json!({"op": "next", "it": it, "res": obs["res"], "mode": obs["mode"]}));
            if none {
                break;
            }
        }
        let _ = k;
    }
    b.meta.push(json!({"trace": 1, "first_event": first_event, "last_event": b.events.len(), "modes": [describe_modes(&ma), describe_modes(&mb)],
        "inputs": [text], "what": "two valid configurations with equal FxHash, both built through the cache", "fxhash": format!("{ha:#x}")}));
    true
}

/// `record <profile> <n traces> <seed> <out dir>`
pub fn main(args: &[String]) -> i32 {
    if args[0] == "c13x" {
        let mut b = Batch::new();
        let ok = record_collision(&mut b);
        b.write(&args[3]);
        println!("{}", json!({"traces": if ok { 1 } else { 0 }, "events": b.events.len(), "cfgs": b.cfgs.len(), "inputs": b.inputs.len(), "collision_constructed": ok}));
        return 0;
    }
    if args[0] == "c15" {
        let n: usize = args[1].parse().unwrap();
        let seed: u64 = args[2].parse().unwrap();
        let mut r = StdRng::seed_from_u64(seed ^ 0xc15);
        let mut b = Batch::new();
        for t in 0..n {
            record_c15(&mut b, &mut r, t + 1);
        }
        b.write(&args[3]);
        println!("{}", json!({"traces": n, "events": b.events.len(), "cfgs": b.cfgs.len(), "inputs": b.inputs.len()}));
        return 0;
    }
    if args[0] == "corpus" {
        let n: usize = args[1].parse().unwrap(); // characters per slice
        let seed: u64 = args[2].parse().unwrap();
        let mut r = StdRng::seed_from_u64(seed ^ 0xc0c0);
        let mut b = Batch::new();
        let traces = record_corpus(&mut b, &mut r, n);
        b.write(&args[3]);
        println!("{}", json!({"traces": traces, "events": b.events.len(), "cfgs": b.cfgs.len(), "inputs": b.inputs.len()}));
        return if crate::HARNESS_ERRORS.load(std::sync::atomic::Ordering::SeqCst) > 0 { 2 } else { 0 };
    }
    let p = profile(&args[0]);
    let n: usize = args[1].parse().unwrap();
    let seed: u64 = args[2].parse().unwrap();
    let out = &args[3];
    let mut r = StdRng::seed_from_u64(seed ^ 0x5eed_0000);
    let mut b = Batch::new();
    let mut prev: Option<Vec<RealMode>> = None;
    for t in 0..n {
        let mut modes = gen_modes(&mut r, &p);
        // every third configuration with several modes is followed by a twin that differs only in
        // its transitions (a cache that confuses the two shows in the twin's mode switches)
        if let Some(pm) = prev.take() {
            modes = pm;
            let nm = modes.len();
            for m in modes.iter_mut() {
                let mut tr: Vec<(usize, usize)> = vec![];
                for q in m.pats.iter() {
                    if r.gen_bool(0.5) {
                        tr.push((q.tt, r.gen_range(0..nm)));
                    }
                }
                tr.sort();
                tr.dedup_by_key(|x| x.0);
                m.trans = tr;
            }
        } else if modes.len() > 1 && t % 3 == 0 {
            prev = Some(modes.clone());
        }
        let n_texts = if p.max_iters > 1 { r.gen_range(1..=2) } else { 1 };
        let texts: Vec<String> = (0..n_texts).map(|_| gen_input(&mut r, &p)).collect();
        record_one(&mut b, &mut r, &p, &modes, &texts, t + 1);
    }
    b.write(out);
    println!("{}", json!({"traces": n, "events": b.events.len(), "cfgs": b.cfgs.len(), "inputs": b.inputs.len()}));
    if crate::HARNESS_ERRORS.load(std::sync::atomic::Ordering::SeqCst) > 0 { 2 } else { 0 }
}
