//! C18: the DOT export. A strict parser for the Graphviz subset that dot-writer emits, and the
//! `dotcheck` sub-command that produces the cases for spec/DotPicture.tla: for every mode of
//! every program the automaton dump (hook) next to the graph parsed from the exported file.

use crate::parse::RealMode;
use scnr::verif::AutomatonDump;
use scnr::ScannerBuilder;
use serde_json::{json, Value};
use std::path::Path;

#[derive(Debug, Clone, PartialEq)]
enum Tok {
    Id(String),
    Str(String),
    LBrace,
    RBrace,
    LBrack,
    RBrack,
    Eq,
    Comma,
    Semi,
    Arrow,
}

/// Graphviz lexical rules for the subset: identifiers [A-Za-z_0-9.]+, double-quoted strings in
/// which only \" hides a quote, punctuation. Anything else is an error.
fn lex(src: &str) -> Result<Vec<Tok>, String> {
    let cs: Vec<char> = src.chars().collect();
    let mut i = 0;
    let mut out = vec![];
    while i < cs.len() {
        let c = cs[i];
        if c.is_whitespace() {
            i += 1;
        } else if c == '"' {
            let mut s = String::new();
            i += 1;
            loop {
                if i >= cs.len() {
                    return Err("unterminated string".to_string());
                }
                if cs[i] == '\\' && i + 1 < cs.len() {
                    // escString: the backslash and the next character belong to the string
                    s.push(cs[i]);
                    s.push(cs[i + 1]);
                    i += 2;
                } else if cs[i] == '"' {
                    i += 1;
                    break;
                } else {
                    s.push(cs[i]);
                    i += 1;
                }
            }
            out.push(Tok::Str(s));
        } else if c.is_ascii_alphanumeric() || c == '_' || c == '.' {
            let mut s = String::new();
            while i < cs.len() && (cs[i].is_ascii_alphanumeric() || cs[i] == '_' || cs[i] == '.') {
                s.push(cs[i]);
                i += 1;
            }
            out.push(Tok::Id(s));
        } else {
            let t = match c {
                '{' => Tok::LBrace,
                '}' => Tok::RBrace,
                '[' => Tok::LBrack,
                ']' => Tok::RBrack,
                '=' => Tok::Eq,
                ',' => Tok::Comma,
                ';' => Tok::Semi,
                '-' if i + 1 < cs.len() && cs[i + 1] == '>' => {
                    i += 1;
                    Tok::Arrow
                }
                _ => return Err(format!("unexpected character {c:?} at {i}")),
            };
            out.push(t);
            i += 1;
        }
    }
    Ok(out)
}

#[derive(Default, Debug)]
pub struct Graph {
    pub label: Option<String>,
    pub nodes: Vec<(String, Vec<(String, String)>)>,
    pub edges: Vec<(String, String, Vec<(String, String)>)>,
    pub clusters: Vec<(String, Graph)>,
    pub other_attrs: Vec<(String, String)>,
}

struct P {
    t: Vec<Tok>,
    i: usize,
}

impl P {
    fn peek(&self) -> Option<&Tok> {
        self.t.get(self.i)
    }
    fn next(&mut self) -> Option<Tok> {
        let x = self.t.get(self.i).cloned();
        self.i += 1;
        x
    }
    fn expect(&mut self, t: Tok) -> Result<(), String> {
        match self.next() {
            Some(x) if x == t => Ok(()),
            x => Err(format!("expected {t:?}, found {x:?}")),
        }
    }
    fn name(&mut self) -> Result<String, String> {
        match self.next() {
            Some(Tok::Id(s)) | Some(Tok::Str(s)) => Ok(s),
            x => Err(format!("expected a name, found {x:?}")),
        }
    }
    fn attrs(&mut self) -> Result<Vec<(String, String)>, String> {
        let mut v = vec![];
        self.expect(Tok::LBrack)?;
        loop {
            if self.peek() == Some(&Tok::RBrack) {
                self.next();
                break;
            }
            let k = self.name()?;
            self.expect(Tok::Eq)?;
            let val = self.name()?;
            v.push((k, val));
            match self.peek() {
                Some(Tok::Comma) => {
                    self.next();
                }
                Some(Tok::RBrack) => {}
                x => return Err(format!("in attribute list: found {x:?}")),
            }
        }
        Ok(v)
    }
    fn body(&mut self) -> Result<Graph, String> {
        let mut g = Graph::default();
        self.expect(Tok::LBrace)?;
        loop {
            match self.peek().cloned() {
                Some(Tok::RBrace) => {
                    self.next();
                    return Ok(g);
                }
                Some(Tok::Id(s)) if s == "subgraph" => {
                    self.next();
                    let name = self.name()?;
                    let sub = self.body()?;
                    g.clusters.push((name, sub));
                }
                Some(Tok::Id(_)) | Some(Tok::Str(_)) => {
                    let a = self.name()?;
                    match self.peek() {
                        Some(Tok::Eq) => {
                            self.next();
                            let v = self.name()?;
                            if a == "label" {
                                if g.label.is_some() {
                                    return Err("two labels".to_string());
                                }
                                g.label = Some(v);
                            } else {
                                g.other_attrs.push((a, v));
                            }
                        }
                        Some(Tok::Arrow) => {
                            self.next();
                            let b = self.name()?;
                            let at = if self.peek() == Some(&Tok::LBrack) { self.attrs()? } else { vec![] };
                            g.edges.push((a, b, at));
                        }
                        Some(Tok::LBrack) => {
                            let at = self.attrs()?;
                            g.nodes.push((a, at));
                        }
                        _ => g.nodes.push((a, vec![])),
                    }
                    self.expect(Tok::Semi)?;
                }
                x => return Err(format!("unexpected {x:?} in graph body")),
            }
        }
    }
}

pub fn parse_dot(src: &str) -> Result<Graph, String> {
    let mut p = P { t: lex(src)?, i: 0 };
    match p.next() {
        Some(Tok::Id(s)) if s == "digraph" => {}
        x => return Err(format!("expected digraph, found {x:?}")),
    }
    if let Some(Tok::Id(_)) | Some(Tok::Str(_)) = p.peek() {
        p.next();
    }
    let g = p.body()?;
    if p.peek().is_some() {
        return Err("text after the graph".to_string());
    }
    Ok(g)
}

fn attr<'a>(a: &'a [(String, String)], k: &str) -> Option<&'a str> {
    a.iter().find(|x| x.0 == k).map(|x| x.1.as_str())
}

/// the unsigned integers that occur in a label, in order
fn nums(l: &str) -> Vec<i64> {
    let mut out = vec![];
    let mut cur = String::new();
    for c in l.chars().chain(" ".chars()) {
        if c.is_ascii_digit() {
            cur.push(c);
        } else if !cur.is_empty() {
            out.push(cur.parse::<i64>().unwrap_or(-1));
            cur.clear();
        }
    }
    out
}

/// A parsed graph as the specification reads it. The relation is stated on what the picture
/// SHOWS, not on a particular label format: a node shows the integers of its label (state, and
/// token type if accepting), an edge the last integer of its label (the class id), a cluster the
/// integers of its label and a polarity word.
fn graph_json(g: &Graph) -> Result<Value, String> {
    let mut nodes = vec![];
    for (id, at) in &g.nodes {
        let l = attr(at, "label").unwrap_or("");
        nodes.push(json!({"id": id, "label": l, "nums": nums(l)}));
    }
    let mut edges = vec![];
    for (a, b, at) in &g.edges {
        let l = attr(at, "label").unwrap_or("");
        edges.push(json!({"from": a, "to": b, "cls": nums(l).last().cloned().unwrap_or(-1)}));
    }
    let mut clusters = vec![];
    for (name, c) in &g.clusters {
        if !c.clusters.is_empty() {
            return Err("nested clusters".to_string());
        }
        let mut cj = graph_json(c)?;
        cj["name"] = json!(name);
        let l = c.label.clone().unwrap_or_default().to_lowercase();
        cj["polarity"] = json!(if l.contains("neg") { "neg" } else if l.contains("pos") { "pos" } else { "?" });
        cj["nums"] = json!(nums(&l));
        clusters.push(cj);
    }
    Ok(json!({"label": g.label.clone().unwrap_or_default(), "nodes": nodes, "edges": edges, "clusters": clusters}))
}

fn dump_json(a: &AutomatonDump) -> Value {
    json!({
        "n": a.n_states,
        "trans": a.transitions.iter().map(|t| json!([t.0, t.1, t.2])).collect::<Vec<_>>(),
        "acc": a.accepting.iter().map(|t| json!([t.0, t.1])).collect::<Vec<_>>(),
        "la": a.lookaheads.iter().map(|(tt, pos, l)| json!({"tt": tt, "pos": pos, "n": l.n_states,
            "trans": l.transitions.iter().map(|t| json!([t.0, t.1, t.2])).collect::<Vec<_>>(),
            "acc": l.accepting.iter().map(|t| json!([t.0, t.1])).collect::<Vec<_>>()})).collect::<Vec<_>>(),
    })
}

fn export(sc: &scnr::Scanner, prefix: &str, dir: &Path) -> &'static str {
    match std::panic::catch_unwind(std::panic::AssertUnwindSafe(|| sc.generate_compiled_automata_as_dot(prefix, dir))) {
        Ok(Ok(())) => "ok",
        Ok(Err(_)) => "err",
        Err(_) => "panic",
    }
}

/// programs with mode names and patterns that need care in labels and file names
fn special_programs() -> Vec<(String, Vec<RealMode>)> {
    let pat = |p: &str, tt: usize| crate::parse::RealPat { pattern: p.to_string(), tt, la: None };
    let names = ["A\"B", "back\\slash", "ünï cödé", "sp ace", "semi;colon", "brace{}", "q\"\"", "tab\there", "x]y[", "-->", "a=b,c",
        "V1.5", "dot.", ".hidden", "a.b.c"];
    // long patterns of characters of every UTF-8 width, shifted byte by byte: whatever text of the
    // patterns the export copies into the picture (titles, labels), cut anywhere, meets a
    // character boundary problem in one of them
    let mut long: Vec<(String, Vec<RealMode>)> = (0..12)
        .map(|k| {
            let body = format!("{}{}", "x".repeat(k), "é€𝄞日".repeat(25));
            (
                format!("long#{k}"),
                vec![RealMode { name: format!("L{k}"), pats: vec![pat(&body, 1), pat(&format!("{}|ü+", "😀ж".repeat(20)), 2),
                    crate::parse::RealPat { pattern: "ю".into(), tt: 3, la: Some((true, "日本".repeat(30))) }], trans: vec![] }],
            )
        })
        .collect();
    let mut named: Vec<(String, Vec<RealMode>)> = names
        .iter()
        .enumerate()
        .map(|(k, n)| {
            (
                format!("special#{k}"),
                vec![
                    RealMode { name: n.to_string(), pats: vec![pat("\\u{22}[^\\u{22}]*\\u{22}", 1), pat("\\\\|\\{|\\}|;", 2), pat("é+|\\n", 3)], trans: vec![(1, 1)] },
                    RealMode { name: format!("{n}2"), pats: vec![crate::parse::RealPat { pattern: "a\"".into(), tt: 4, la: Some((k % 2 == 0, "\"|\\\\".into())) }, pat("[\"\\\\]", 5)], trans: vec![] },
                ],
            )
        })
        .collect();
    named.append(&mut long);
    named
}

/// `dotcheck <out dir> <scratch dir> <source>...` -> <out>/dotcases.json
pub fn main(args: &[String]) -> i32 {
    let out = &args[0];
    let scratch = &args[1];
    let mut progs = crate::dump::programs_from(&args[2..]);
    progs.extend(special_programs());
    std::fs::create_dir_all(out).unwrap();
    let mut cases = vec![];
    let mut n_files = 0;
    for (pi, (origin, modes)) in progs.iter().enumerate() {
        let sm = crate::parse::to_scanner_modes(modes);
        let sc = match std::panic::catch_unwind(|| ScannerBuilder::new().add_scanner_modes(&sm).build_uncached()) {
            Ok(Ok(s)) => s,
            _ => continue,
        };
        let d = sc.verif_dump();
        let dir = format!("{scratch}/p{pi}");
        let _ = std::fs::remove_dir_all(&dir);
        std::fs::create_dir_all(&dir).unwrap();
        let prefix = if pi % 3 == 0 { "pre fix" } else if pi % 3 == 1 { "lexer.v2" } else { "P" };
        let ret = export(&sc, prefix, Path::new(&dir));
        let mut listed: Vec<String> = std::fs::read_dir(&dir).map(|r| r.filter_map(|e| e.ok()).map(|e| e.file_name().to_string_lossy().to_string()).collect()).unwrap_or_default();
        listed.sort();
        let mut expected: Vec<String> = vec![];
        for (mi, m) in d.modes.iter().enumerate() {
            let file = format!("{prefix}_{}.dot", m.name);
            expected.push(file.clone());
            let path = format!("{dir}/{file}");
            let (exists, parsed, err) = match std::fs::read_to_string(&path) {
                Err(_) => (false, Value::Null, "file missing".to_string()),
                Ok(text) => {
                    n_files += 1;
                    match parse_dot(&text).and_then(|g| graph_json(&g)) {
                        Ok(g) => (true, g, String::new()),
                        Err(e) => (true, Value::Null, e),
                    }
                }
            };
            cases.push(json!({"kind": "file", "program": pi + 1, "origin": origin, "mode": mi, "name": m.name, "file": file,
                "returned": ret, "exists": exists, "wellformed": err.is_empty() && exists, "error": err,
                "graph": if parsed.is_null() { json!({"label": "", "nodes": [], "edges": [], "clusters": []}) } else { parsed },
                "dump": dump_json(&m.dfa), "desc": crate::record::describe_modes(modes)}));
        }
        expected.sort();
        let distinct_names = { let mut e = expected.clone(); e.dedup(); e.len() == expected.len() };
        cases.push(json!({"kind": "dir", "program": pi + 1, "origin": origin, "returned": ret, "listed": listed, "expected": expected,
            "distinct": distinct_names, "desc": crate::record::describe_modes(modes)}));
        let _ = std::fs::remove_dir_all(&dir);
    }
    // fault cases: a target folder that cannot be written to
    if let Some((origin, modes)) = progs.first() {
        let sm = crate::parse::to_scanner_modes(modes);
        if let Ok(sc) = ScannerBuilder::new().add_scanner_modes(&sm).build_uncached() {
            let missing = format!("{scratch}/does/not/exist");
            let _ = std::fs::remove_dir_all(format!("{scratch}/does"));
            let r1 = export(&sc, "P", Path::new(&missing));
            let file = format!("{scratch}/plainfile");
            std::fs::write(&file, "x").unwrap();
            let r2 = export(&sc, "P", Path::new(&format!("{file}/sub")));
            let r3 = export(&sc, "P", Path::new(&file));
            let _ = std::fs::remove_file(&file);
            for (what, r) in [("target folder does not exist", r1), ("parent of the target folder is a regular file", r2), ("target folder is a regular file", r3)] {
                cases.push(json!({"kind": "fault", "what": what, "returned": r, "origin": origin, "desc": crate::record::describe_modes(modes)}));
            }
        }
    }
    // TLC's Json module has no null: the descriptions (lookahead: null) go into a side file
    let meta: Vec<Value> = cases.iter().map(|c| c["desc"].clone()).collect();
    for c in cases.iter_mut() {
        c.as_object_mut().unwrap().remove("desc");
    }
    std::fs::write(format!("{out}/dotmeta.json"), serde_json::to_string(&meta).unwrap()).unwrap();
    std::fs::write(format!("{out}/dotcases.json"), serde_json::to_string(&cases).unwrap()).unwrap();
    println!("{}", json!({"programs": progs.len(), "cases": cases.len(), "files": n_files}));
    0
}
