//! C18: the DOT export. A parser for the DOT language as Graphviz defines it (comments, default
//! attribute statements, optional semicolons, edge chains, ports, string concatenation, HTML
//! strings, subgraphs; not: edges whose end is a subgraph), and the
//! `dotcheck` sub-command that produces the cases for spec/DotPicture.tla: for every mode of
//! every program the automaton dump (hook) next to the graph parsed from the exported file.

use crate::parse::RealMode;
use scnr::verif::AutomatonDump;
use scnr::ScannerBuilder;
use serde_json::{json, Value};
use std::path::Path;

#[derive(Debug, Clone, PartialEq)]
enum Tok {
    /// an identifier, numeral, double-quoted string (content, escapes kept) or HTML string
    Id(String),
    /// a keyword (node, edge, graph, digraph, subgraph, strict), lower-cased; keywords are
    /// case-independent and only unquoted text can be one
    Kw(&'static str),
    LBrace,
    RBrace,
    LBrack,
    RBrack,
    Eq,
    Comma,
    Semi,
    Colon,
    Plus,
    Arrow,
}

const KEYWORDS: [&str; 6] = ["node", "edge", "graph", "digraph", "subgraph", "strict"];

/// The lexical rules of the DOT language (graphviz.org/doc/info/lang.html): identifiers
/// (letters, underscore, digits, characters >= U+0080, not starting with a digit), numerals,
/// double-quoted strings in which only \" hides a quote (a backslash-newline continues the
/// line), HTML strings with balanced angle brackets, `/* */` and `//` comments, lines starting
/// with `#`, punctuation. Anything else is an error.
fn lex(src: &str) -> Result<Vec<Tok>, String> {
    let cs: Vec<char> = src.chars().collect();
    let mut i = 0;
    let mut out = vec![];
    let mut line_start = true;
    while i < cs.len() {
        let c = cs[i];
        if c == '\n' {
            line_start = true;
            i += 1;
            continue;
        }
        if c.is_whitespace() {
            i += 1;
            continue;
        }
        if c == '#' && line_start {
            while i < cs.len() && cs[i] != '\n' {
                i += 1;
            }
            continue;
        }
        line_start = false;
        if c == '/' && i + 1 < cs.len() && cs[i + 1] == '/' {
            while i < cs.len() && cs[i] != '\n' {
                i += 1;
            }
        } else if c == '/' && i + 1 < cs.len() && cs[i + 1] == '*' {
            i += 2;
            loop {
                if i + 1 >= cs.len() {
                    return Err("unterminated comment".to_string());
                }
                if cs[i] == '*' && cs[i + 1] == '/' {
                    i += 2;
                    break;
                }
                i += 1;
            }
        } else if c == '"' {
            let mut s = String::new();
            i += 1;
            loop {
                if i >= cs.len() {
                    return Err("unterminated string".to_string());
                }
                if cs[i] == '\\' && i + 1 < cs.len() {
                    if cs[i + 1] == '\n' {
                        // line continuation
                        i += 2;
                        continue;
                    }
                    // escString: the backslash and the next character belong to the string
                    s.push(cs[i]);
                    s.push(cs[i + 1]);
                    i += 2;
                } else if cs[i] == '"' {
                    i += 1;
                    break;
                } else {
                    s.push(cs[i]);
                    i += 1;
                }
            }
            out.push(Tok::Id(s));
        } else if c == '<' {
            let mut depth = 0;
            let mut s = String::new();
            loop {
                if i >= cs.len() {
                    return Err("unterminated HTML string".to_string());
                }
                if cs[i] == '<' {
                    depth += 1;
                } else if cs[i] == '>' {
                    depth -= 1;
                }
                s.push(cs[i]);
                i += 1;
                if depth == 0 {
                    break;
                }
            }
            out.push(Tok::Id(s));
        } else if c.is_ascii_digit() || c == '.' || (c == '-' && i + 1 < cs.len() && (cs[i + 1].is_ascii_digit() || cs[i + 1] == '.')) {
            // numeral: [-]?(.[0-9]+ | [0-9]+(.[0-9]*)?)
            let mut s = String::new();
            if c == '-' {
                s.push('-');
                i += 1;
            }
            let mut digits = 0;
            while i < cs.len() && cs[i].is_ascii_digit() {
                s.push(cs[i]);
                i += 1;
                digits += 1;
            }
            if i < cs.len() && cs[i] == '.' {
                s.push('.');
                i += 1;
                while i < cs.len() && cs[i].is_ascii_digit() {
                    s.push(cs[i]);
                    i += 1;
                    digits += 1;
                }
            }
            if digits == 0 {
                return Err(format!("malformed numeral at {i}"));
            }
            if i < cs.len() && (cs[i].is_alphabetic() || cs[i] == '_') {
                return Err(format!("identifier starting with a digit at {i}"));
            }
            out.push(Tok::Id(s));
        } else if c.is_ascii_alphabetic() || c == '_' || (c as u32) >= 0x80 {
            let mut s = String::new();
            while i < cs.len() && (cs[i].is_ascii_alphanumeric() || cs[i] == '_' || (cs[i] as u32) >= 0x80) {
                s.push(cs[i]);
                i += 1;
            }
            match KEYWORDS.iter().find(|k| k.eq_ignore_ascii_case(&s)) {
                Some(k) => out.push(Tok::Kw(k)),
                None => out.push(Tok::Id(s)),
            }
        } else {
            let t = match c {
                '{' => Tok::LBrace,
                '}' => Tok::RBrace,
                '[' => Tok::LBrack,
                ']' => Tok::RBrack,
                '=' => Tok::Eq,
                ',' => Tok::Comma,
                ';' => Tok::Semi,
                ':' => Tok::Colon,
                '+' => Tok::Plus,
                '-' if i + 1 < cs.len() && cs[i + 1] == '>' => {
                    i += 1;
                    Tok::Arrow
                }
                _ => return Err(format!("unexpected character {c:?} at {i}")),
            };
            out.push(t);
            i += 1;
        }
    }
    Ok(out)
}

/// One scope of the file: the graph itself or a cluster. Statements of subgraphs that are not
/// clusters belong to the enclosing scope, as in Graphviz.
#[derive(Default, Debug)]
pub struct Graph {
    pub label: Option<String>,
    pub nodes: Vec<(String, Vec<(String, String)>)>,
    pub edges: Vec<(String, String, Vec<(String, String)>)>,
    pub clusters: Vec<(String, Graph)>,
    pub other_attrs: Vec<(String, String)>,
}

impl Graph {
    /// a node statement: attributes of a node mentioned before are merged (later ones win)
    fn node(&mut self, id: String, at: Vec<(String, String)>) {
        if let Some(n) = self.nodes.iter_mut().find(|n| n.0 == id) {
            for (k, v) in at {
                n.1.retain(|x| x.0 != k);
                n.1.push((k, v));
            }
        } else {
            self.nodes.push((id, at));
        }
    }
    fn declares(&self, id: &str) -> bool {
        self.nodes.iter().any(|n| n.0 == id) || self.clusters.iter().any(|c| c.1.declares(id))
    }
}

struct P {
    t: Vec<Tok>,
    i: usize,
    anon: usize,
}

impl P {
    fn peek(&self) -> Option<&Tok> {
        self.t.get(self.i)
    }
    fn next(&mut self) -> Option<Tok> {
        let x = self.t.get(self.i).cloned();
        self.i += 1;
        x
    }
    fn expect(&mut self, t: Tok) -> Result<(), String> {
        match self.next() {
            Some(x) if x == t => Ok(()),
            x => Err(format!("expected {t:?}, found {x:?}")),
        }
    }
    /// ID, with the `+` concatenation of quoted strings
    fn name(&mut self) -> Result<String, String> {
        let mut s = match self.next() {
            Some(Tok::Id(s)) => s,
            x => return Err(format!("expected a name, found {x:?}")),
        };
        while self.peek() == Some(&Tok::Plus) {
            self.next();
            match self.next() {
                Some(Tok::Id(t)) => s.push_str(&t),
                x => return Err(format!("expected a string after +, found {x:?}")),
            }
        }
        Ok(s)
    }
    /// node_id : ID [ ':' ID [ ':' ID ] ]  (the port is irrelevant for the picture)
    fn node_id(&mut self) -> Result<String, String> {
        let n = self.name()?;
        for _ in 0..2 {
            if self.peek() == Some(&Tok::Colon) {
                self.next();
                self.name()?;
            }
        }
        Ok(n)
    }
    /// attr_list : '[' [ a_list ] ']' [ attr_list ] ; a_list : ID '=' ID [ (';' | ',') ] [ a_list ]
    fn attrs(&mut self) -> Result<Vec<(String, String)>, String> {
        let mut v = vec![];
        while self.peek() == Some(&Tok::LBrack) {
            self.next();
            loop {
                if self.peek() == Some(&Tok::RBrack) {
                    self.next();
                    break;
                }
                let k = self.name()?;
                self.expect(Tok::Eq)?;
                let val = self.name()?;
                v.retain(|x: &(String, String)| x.0 != k);
                v.push((k, val));
                if let Some(Tok::Comma) | Some(Tok::Semi) = self.peek() {
                    self.next();
                }
            }
        }
        Ok(v)
    }
    /// stmt_list up to the closing brace, into scope `g`
    fn stmts(&mut self, g: &mut Graph) -> Result<(), String> {
        loop {
            match self.peek().cloned() {
                Some(Tok::RBrace) => {
                    self.next();
                    return Ok(());
                }
                Some(Tok::Semi) => {
                    self.next();
                }
                Some(Tok::Kw(k)) if k == "node" || k == "edge" || k == "graph" => {
                    // attr_stmt: defaults. Only a default label of the graph scope matters here.
                    self.next();
                    if self.peek() != Some(&Tok::LBrack) {
                        return Err(format!("expected an attribute list after {k}"));
                    }
                    let at = self.attrs()?;
                    if k == "graph" {
                        for (a, v) in at {
                            if a == "label" {
                                g.label = Some(v);
                            } else {
                                g.other_attrs.push((a, v));
                            }
                        }
                    }
                }
                Some(Tok::Kw("subgraph")) | Some(Tok::LBrace) => {
                    let mut name = None;
                    if self.peek() == Some(&Tok::Kw("subgraph")) {
                        self.next();
                        if let Some(Tok::Id(_)) = self.peek() {
                            name = Some(self.name()?);
                        }
                    }
                    self.expect(Tok::LBrace)?;
                    match name {
                        Some(n) if n.starts_with("cluster") => {
                            let mut sub = Graph::default();
                            self.stmts(&mut sub)?;
                            g.clusters.push((n, sub));
                        }
                        _ => {
                            // not a cluster: its statements belong to the enclosing scope
                            self.anon += 1;
                            let keep_label = g.label.clone();
                            self.stmts(g)?;
                            g.label = keep_label;
                        }
                    }
                    if self.peek() == Some(&Tok::Arrow) {
                        return Err("edges between subgraphs are outside the subset this parser supports".to_string());
                    }
                }
                Some(Tok::Id(_)) => {
                    let a = self.node_id()?;
                    match self.peek() {
                        Some(Tok::Eq) => {
                            self.next();
                            let v = self.name()?;
                            if a == "label" {
                                g.label = Some(v);
                            } else {
                                g.other_attrs.push((a, v));
                            }
                        }
                        Some(Tok::Arrow) => {
                            let mut chain = vec![a];
                            while self.peek() == Some(&Tok::Arrow) {
                                self.next();
                                if let Some(Tok::Id(_)) = self.peek() {
                                    chain.push(self.node_id()?);
                                } else {
                                    return Err("edges to subgraphs are outside the subset this parser supports".to_string());
                                }
                            }
                            let at = self.attrs()?;
                            for w in chain.windows(2) {
                                g.edges.push((w[0].clone(), w[1].clone(), at.clone()));
                            }
                        }
                        _ => {
                            let at = self.attrs()?;
                            g.node(a, at);
                        }
                    }
                }
                x => return Err(format!("unexpected {x:?} in graph body")),
            }
        }
    }
}

/// an edge creates the nodes it mentions if no node statement did (label = name, as in Graphviz)
fn add_implicit_nodes(g: &mut Graph, declared_elsewhere: &dyn Fn(&str) -> bool) {
    let ends: Vec<String> = g.edges.iter().flat_map(|e| [e.0.clone(), e.1.clone()]).collect();
    for id in ends {
        if !g.declares(&id) && !declared_elsewhere(&id) {
            g.nodes.push((id, vec![]));
        }
    }
}

pub fn parse_dot(src: &str) -> Result<Graph, String> {
    let mut p = P { t: lex(src)?, i: 0, anon: 0 };
    if p.peek() == Some(&Tok::Kw("strict")) {
        p.next();
    }
    match p.next() {
        Some(Tok::Kw("digraph")) => {}
        Some(Tok::Kw("graph")) => return Err("an undirected graph cannot picture an automaton".to_string()),
        x => return Err(format!("expected digraph, found {x:?}")),
    }
    if let Some(Tok::Id(_)) = p.peek() {
        p.name()?;
    }
    p.expect(Tok::LBrace)?;
    let mut g = Graph::default();
    p.stmts(&mut g)?;
    if p.peek().is_some() {
        return Err("text after the graph".to_string());
    }
    // implicit nodes: first inside the clusters, then at the top
    let top: Vec<String> = g.nodes.iter().map(|n| n.0.clone()).collect();
    let all_cluster: Vec<String> = g.clusters.iter().flat_map(|c| c.1.nodes.iter().map(|n| n.0.clone())).collect();
    for c in g.clusters.iter_mut() {
        let (top, all_cluster) = (top.clone(), all_cluster.clone());
        add_implicit_nodes(&mut c.1, &move |id| top.iter().any(|t| t == id) || all_cluster.iter().any(|t| t == id));
    }
    add_implicit_nodes(&mut g, &|_| false);
    Ok(g)
}

fn attr<'a>(a: &'a [(String, String)], k: &str) -> Option<&'a str> {
    a.iter().find(|x| x.0 == k).map(|x| x.1.as_str())
}

/// the unsigned integers that occur in a label, in order
fn nums(l: &str) -> Vec<i64> {
    let mut out = vec![];
    let mut cur = String::new();
    for c in l.chars().chain(" ".chars()) {
        if c.is_ascii_digit() {
            cur.push(c);
        } else if !cur.is_empty() {
            out.push(cur.parse::<i64>().unwrap_or(-1));
            cur.clear();
        }
    }
    out
}

/// A parsed graph as the specification reads it. The relation is stated on what the picture
/// SHOWS, not on a particular label format: a node shows the integers of its label (state, and
/// token type if accepting), an edge the last integer of its label (the class id), a cluster the
/// integers of its label and a polarity word.
fn graph_json(g: &Graph) -> Result<Value, String> {
    let mut nodes = vec![];
    for (id, at) in &g.nodes {
        // a node without a label shows its name (Graphviz: label = "\\N")
        let l = attr(at, "label").unwrap_or(id.as_str());
        nodes.push(json!({"id": id, "label": l, "nums": nums(l)}));
    }
    let mut edges = vec![];
    for (a, b, at) in &g.edges {
        let l = attr(at, "label").unwrap_or("");
        edges.push(json!({"from": a, "to": b, "cls": nums(l).last().cloned().unwrap_or(-1)}));
    }
    let mut clusters = vec![];
    for (name, c) in &g.clusters {
        if !c.clusters.is_empty() {
            return Err("nested clusters".to_string());
        }
        let mut cj = graph_json(c)?;
        cj["name"] = json!(name);
        let l = c.label.clone().unwrap_or_default().to_lowercase();
        cj["polarity"] = json!(if l.contains("neg") { "neg" } else if l.contains("pos") { "pos" } else { "?" });
        cj["nums"] = json!(nums(&l));
        clusters.push(cj);
    }
    Ok(json!({"label": g.label.clone().unwrap_or_default(), "nodes": nodes, "edges": edges, "clusters": clusters}))
}

fn dump_json(a: &AutomatonDump) -> Value {
    json!({
        "n": a.n_states,
        "trans": a.transitions.iter().map(|t| json!([t.0, t.1, t.2])).collect::<Vec<_>>(),
        "acc": a.accepting.iter().map(|t| json!([t.0, t.1])).collect::<Vec<_>>(),
        "la": a.lookaheads.iter().map(|(tt, pos, l)| json!({"tt": tt, "pos": pos, "n": l.n_states,
            "trans": l.transitions.iter().map(|t| json!([t.0, t.1, t.2])).collect::<Vec<_>>(),
            "acc": l.accepting.iter().map(|t| json!([t.0, t.1])).collect::<Vec<_>>()})).collect::<Vec<_>>(),
    })
}

fn export(sc: &scnr::Scanner, prefix: &str, dir: &Path) -> &'static str {
    match std::panic::catch_unwind(std::panic::AssertUnwindSafe(|| sc.generate_compiled_automata_as_dot(prefix, dir))) {
        Ok(Ok(())) => "ok",
        Ok(Err(_)) => "err",
        Err(_) => "panic",
    }
}

/// programs with mode names and patterns that need care in labels and file names
fn special_programs() -> Vec<(String, Vec<RealMode>)> {
    let pat = |p: &str, tt: usize| crate::parse::RealPat { pattern: p.to_string(), tt, la: None };
    let names = ["A\"B", "back\\slash", "ünï cödé", "sp ace", "semi;colon", "brace{}", "q\"\"", "tab\there", "x]y[", "-->", "a=b,c",
        "V1.5", "dot.", ".hidden", "a.b.c"];
    // long patterns of characters of every UTF-8 width, shifted byte by byte: whatever text of the
    // patterns the export copies into the picture (titles, labels), cut anywhere, meets a
    // character boundary problem in one of them
    let mut long: Vec<(String, Vec<RealMode>)> = (0..12)
        .map(|k| {
            let body = format!("{}{}", "x".repeat(k), "é€𝄞日".repeat(25));
            (
                format!("long#{k}"),
                vec![RealMode { name: format!("L{k}"), pats: vec![pat(&body, 1), pat(&format!("{}|ü+", "😀ж".repeat(20)), 2),
                    crate::parse::RealPat { pattern: "ю".into(), tt: 3, la: Some((true, "日本".repeat(30))) }], trans: vec![] }],
            )
        })
        .collect();
    let mut named: Vec<(String, Vec<RealMode>)> = names
        .iter()
        .enumerate()
        .map(|(k, n)| {
            (
                format!("special#{k}"),
                vec![
                    RealMode { name: n.to_string(), pats: vec![pat("\\u{22}[^\\u{22}]*\\u{22}", 1), pat("\\\\|\\{|\\}|;", 2), pat("é+|\\n", 3)], trans: vec![(1, 1)] },
                    RealMode { name: format!("{n}2"), pats: vec![crate::parse::RealPat { pattern: "a\"".into(), tt: 4, la: Some((k % 2 == 0, "\"|\\\\".into())) }, pat("[\"\\\\]", 5)], trans: vec![] },
                ],
            )
        })
        .collect();
    named.append(&mut long);
    // classes whose source text needs escaping inside a DOT string in every way (an escaped quote,
    // a backslash, both, a quote right before the end); a mode without any pattern (it is only a
    // transition target); a mode without transitions in front of it
    named.push((
        "escapes".to_string(),
        vec![
            RealMode { name: "E".into(), pats: vec![pat("\\\"[a-z]*\\\"", 1), pat("\\\\", 2), pat("a\\\\\\\"b|\\\\d", 3), pat("[\\\\\"]\\\"", 4)], trans: vec![(2, 1)] },
            RealMode { name: "IDLE".into(), pats: vec![], trans: vec![] },
            RealMode { name: "T".into(), pats: vec![crate::parse::RealPat { pattern: "x".into(), tt: 0, la: Some((false, "\\\"".into())) }], trans: vec![(0, 1)] },
        ],
    ));
    named.push(("only-empty".to_string(), vec![RealMode { name: "EMPTY".into(), pats: vec![], trans: vec![] }]));
    named
}

/// `dotparse <file>`: prints the parsed graph as JSON, or `{"error": ...}` (selftest of the parser)
pub fn parse_main(args: &[String]) -> i32 {
    let src = std::fs::read_to_string(&args[0]).expect("file");
    match parse_dot(&src).and_then(|g| graph_json(&g)) {
        Ok(j) => println!("{j}"),
        Err(e) => println!("{}", json!({"error": e})),
    }
    0
}

/// `dotcheck <out dir> <scratch dir> <source>...` -> <out>/dotcases.json
pub fn main(args: &[String]) -> i32 {
    let out = &args[0];
    let scratch = &args[1];
    let mut progs = crate::dump::programs_from(&args[2..]);
    progs.extend(special_programs());
    std::fs::create_dir_all(out).unwrap();
    let mut cases = vec![];
    let mut n_files = 0;
    for (pi, (origin, modes)) in progs.iter().enumerate() {
        let sm = crate::parse::to_scanner_modes_raw(modes);
        let sc = match std::panic::catch_unwind(|| ScannerBuilder::new().add_scanner_modes(&sm).build_uncached()) {
            Ok(Ok(s)) => s,
            _ => continue,
        };
        let d = sc.verif_dump();
        let dir = format!("{scratch}/p{pi}");
        let _ = std::fs::remove_dir_all(&dir);
        std::fs::create_dir_all(&dir).unwrap();
        let prefix = if pi % 3 == 0 { "pre fix" } else if pi % 3 == 1 { "lexer.v2" } else { "P" };
        if pi % 4 == 0 {
            // the folder already holds (longer) files of the same names from an earlier generation:
            // the same modes with one more, long pattern each
            let mut bigger = modes.clone();
            for m in bigger.iter_mut() {
                m.pats.push(crate::parse::RealPat { pattern: "zyxwvutsrqponmlkjihgfedcba0123456789".into(), tt: 77, la: Some((true, "abcdefghij".into())) });
            }
            if let Ok(Ok(big)) = std::panic::catch_unwind(|| ScannerBuilder::new().add_scanner_modes(&crate::parse::to_scanner_modes_raw(&bigger)).build_uncached()) {
                let _ = export(&big, prefix, Path::new(&dir));
            }
        }
        let ret = export(&sc, prefix, Path::new(&dir));
        let mut listed: Vec<String> = std::fs::read_dir(&dir).map(|r| r.filter_map(|e| e.ok()).map(|e| e.file_name().to_string_lossy().to_string()).collect()).unwrap_or_default();
        listed.sort();
        let mut expected: Vec<String> = vec![];
        for (mi, m) in d.modes.iter().enumerate() {
            let file = format!("{prefix}_{}.dot", m.name);
            expected.push(file.clone());
            let path = format!("{dir}/{file}");
            let (exists, parsed, err) = match std::fs::read_to_string(&path) {
                Err(_) => (false, Value::Null, "file missing".to_string()),
                Ok(text) => {
                    n_files += 1;
                    match parse_dot(&text).and_then(|g| graph_json(&g)) {
                        Ok(g) => (true, g, String::new()),
                        Err(e) => (true, Value::Null, e),
                    }
                }
            };
            cases.push(json!({"kind": "file", "program": pi + 1, "origin": origin, "mode": mi, "name": m.name, "file": file,
                "returned": ret, "exists": exists, "wellformed": err.is_empty() && exists, "error": err,
                "graph": if parsed.is_null() { json!({"label": "", "nodes": [], "edges": [], "clusters": []}) } else { parsed },
                "dump": dump_json(&m.dfa), "desc": crate::record::describe_modes_raw(modes)}));
        }
        expected.sort();
        let distinct_names = { let mut e = expected.clone(); e.dedup(); e.len() == expected.len() };
        cases.push(json!({"kind": "dir", "program": pi + 1, "origin": origin, "returned": ret, "listed": listed, "expected": expected,
            "distinct": distinct_names, "desc": crate::record::describe_modes_raw(modes)}));
        let _ = std::fs::remove_dir_all(&dir);
    }
    // fault cases: a target folder that cannot be written to
    if let Some((origin, modes)) = progs.first() {
        let sm = crate::parse::to_scanner_modes_raw(modes);
        if let Ok(sc) = ScannerBuilder::new().add_scanner_modes(&sm).build_uncached() {
            let missing = format!("{scratch}/does/not/exist");
            let _ = std::fs::remove_dir_all(format!("{scratch}/does"));
            let r1 = export(&sc, "P", Path::new(&missing));
            let file = format!("{scratch}/plainfile");
            std::fs::write(&file, "x").unwrap();
            let r2 = export(&sc, "P", Path::new(&format!("{file}/sub")));
            let r3 = export(&sc, "P", Path::new(&file));
            let _ = std::fs::remove_file(&file);
            for (what, r) in [("target folder does not exist", r1), ("parent of the target folder is a regular file", r2), ("target folder is a regular file", r3)] {
                cases.push(json!({"kind": "fault", "what": what, "returned": r, "origin": origin, "desc": crate::record::describe_modes_raw(modes)}));
            }
        }
    }
    // TLC's Json module has no null: the descriptions (lookahead: null) go into a side file
    let meta: Vec<Value> = cases.iter().map(|c| c["desc"].clone()).collect();
    for c in cases.iter_mut() {
        c.as_object_mut().unwrap().remove("desc");
    }
    std::fs::write(format!("{out}/dotmeta.json"), serde_json::to_string(&meta).unwrap()).unwrap();
    std::fs::write(format!("{out}/dotcases.json"), serde_json::to_string(&cases).unwrap()).unwrap();
    println!("{}", json!({"programs": progs.len(), "cases": cases.len(), "files": n_files}));
    0
}
