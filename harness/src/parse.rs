//! Translation of real pattern text into the specification's ASTs, and computation of atoms.
//!
//! The pattern text is parsed with `regex-syntax` (the parser scnr uses: scnr's work starts at the
//! AST). Leaves keep their concrete syntax; `atomise` then replaces every leaf by the set of
//! ATOMS it contains, where an atom is a class of characters no leaf of the configuration can
//! tell apart (DESIGN 3.1).

use crate::ast::Re;
use crate::model::{CfgSpec, ModeSpec, PatSpec};
use regex_syntax::ast::{
    parse::Parser, Ast, ClassSet, ClassSetItem, ClassUnicodeKind, FlagsItemKind, GroupKind, RepetitionKind,
    RepetitionRange,
};
use scnr::{Pattern, ScannerBuilder, ScannerMode};
use std::collections::{BTreeMap, BTreeSet};

/// Unicode class names scnr documents/implements (match_function.rs); everything else is
/// "unknown" for C15.
pub const KNOWN_UNICODE_NAMES: &[&str] = &[
    "Alphabetic", "ASCII_Hex_Digit", "Bidi_Control", "Case_Ignorable", "Cased", "Composition_Exclusion", "Dash",
    "Default_Ignorable_Code_Point", "Deprecated", "Diacritic", "Emoji_Component", "Emoji_Modifier_Base",
    "Emoji_Modifier", "Emoji_Presentation", "Emoji", "Extended_Pictographic", "Extender",
    "Full_Composition_Exclusion", "Grapheme_Extend", "Hex_Digit", "Hyphen", "ID_Continue", "ID_Start",
    "Ideographic", "IDS_Binary_Operator", "IDS_Trinary_Operator", "Join_Control", "Logical_Order_Exception",
    "Lowercase", "Math", "Noncharacter_Code_Point", "Other_Alphabetic", "Other_Default_Ignorable_Code_Point",
    "Other_Grapheme_Extend", "Other_ID_Continue", "Other_ID_Start", "Other_Lowercase", "Other_Math",
    "Other_Uppercase", "Pattern_Syntax", "Pattern_White_Space", "Prepended_Concatenation_Mark", "Quotation_Mark",
    "Radical", "Regional_Indicator", "Sentence_Terminal", "Soft_Dotted", "Terminal_Punctuation",
    "Unified_Ideograph", "Uppercase", "Variation_Selector", "White_Space", "XID_Continue", "XID_Start",
];

fn unicode_unsupported(k: &ClassUnicodeKind) -> Option<String> {
    match k {
        ClassUnicodeKind::OneLetter(c) => {
            if "LNZPC".contains(*c) {
                None
            } else {
                Some(format!("\\p{c}"))
            }
        }
        ClassUnicodeKind::Named(n) => {
            if KNOWN_UNICODE_NAMES.contains(&n.as_str()) {
                None
            } else {
                Some(format!("\\p{{{n}}}"))
            }
        }
        ClassUnicodeKind::NamedValue { name, value, .. } => Some(format!("\\p{{{name}={value}}}")),
    }
}

fn set_unsupported(s: &ClassSet) -> Option<String> {
    match s {
        ClassSet::Item(i) => item_unsupported(i),
        ClassSet::BinaryOp(b) => set_unsupported(&b.lhs).or_else(|| set_unsupported(&b.rhs)),
    }
}

fn item_unsupported(i: &ClassSetItem) -> Option<String> {
    match i {
        ClassSetItem::Unicode(u) => unicode_unsupported(&u.kind),
        ClassSetItem::Bracketed(b) => set_unsupported(&b.kind),
        ClassSetItem::Union(u) => u.items.iter().find_map(item_unsupported),
        _ => None,
    }
}

fn rep_n(n: &u32) -> u32 {
    *n
}

fn leaf(src: String) -> Re {
    Re::Cls { set: vec![], src: Some(src) }
}

pub fn convert(ast: &Ast) -> Re {
    match ast {
        Ast::Empty(_) => Re::Eps,
        Ast::Flags(_) => Re::Unsup(ast.to_string()),
        Ast::Literal(_) | Ast::Dot(_) | Ast::ClassPerl(_) => leaf(ast.to_string()),
        Ast::Assertion(_) => Re::Unsup(ast.to_string()),
        Ast::ClassUnicode(u) => match unicode_unsupported(&u.kind) {
            Some(w) => Re::Unsup(w),
            None => leaf(ast.to_string()),
        },
        Ast::ClassBracketed(b) => match set_unsupported(&b.kind) {
            Some(w) => Re::Unsup(w),
            None => leaf(ast.to_string()),
        },
        Ast::Repetition(r) => {
            let inner = convert(&r.ast);
            if !r.greedy {
                return Re::Unsup(ast.to_string());
            }
            match &r.op.kind {
                RepetitionKind::ZeroOrOne => Re::Opt(Box::new(inner)),
                RepetitionKind::ZeroOrMore => Re::Star(Box::new(inner)),
                RepetitionKind::OneOrMore => Re::Plus(Box::new(inner)),
                RepetitionKind::Range(rr) => match rr {
                    RepetitionRange::Exactly(n) => Re::Rep(Box::new(inner), rep_n(n), rep_n(n) as i64),
                    RepetitionRange::AtLeast(n) => Re::Rep(Box::new(inner), rep_n(n), -1),
                    RepetitionRange::Bounded(m, n) => Re::Rep(Box::new(inner), rep_n(m), rep_n(n) as i64),
                },
            }
        }
        Ast::Group(g) => {
            if let GroupKind::NonCapturing(flags) = &g.kind {
                if flags.items.iter().any(|f| matches!(f.kind, FlagsItemKind::Flag(_))) {
                    return Re::Unsup(ast.to_string());
                }
            }
            convert(&g.ast)
        }
        Ast::Alternation(a) => Re::Alt(a.asts.iter().map(convert).collect()),
        Ast::Concat(c) => Re::Cat(c.asts.iter().map(convert).collect()),
    }
}

/// Pattern text -> specification AST (leaves still un-atomised).
pub fn parse_pattern(text: &str) -> Re {
    match Parser::new().parse(text) {
        Ok(ast) => convert(&ast),
        Err(_) => Re::SynErr,
    }
}

fn collect_leaves(re: &Re, out: &mut BTreeSet<String>) {
    match re {
        Re::Cls { src: Some(s), .. } => {
            out.insert(s.clone());
        }
        Re::Cat(xs) | Re::Alt(xs) => xs.iter().for_each(|x| collect_leaves(x, out)),
        Re::Star(l) | Re::Plus(l) | Re::Opt(l) | Re::Rep(l, _, _) => collect_leaves(l, out),
        _ => {}
    }
}

fn set_leaves(re: &mut Re, sets: &BTreeMap<String, Vec<u32>>) {
    match re {
        Re::Cls { set, src: Some(s) } => *set = sets[s].clone(),
        Re::Cat(xs) | Re::Alt(xs) => xs.iter_mut().for_each(|x| set_leaves(x, sets)),
        Re::Star(l) | Re::Plus(l) | Re::Opt(l) | Re::Rep(l, _, _) => set_leaves(l, sets),
        _ => {}
    }
}

pub fn supported(re: &Re) -> bool {
    match re {
        Re::Eps | Re::Cls { .. } => true,
        Re::Cat(xs) | Re::Alt(xs) => xs.iter().all(supported),
        Re::Star(l) | Re::Plus(l) | Re::Opt(l) | Re::Rep(l, _, _) => supported(l),
        Re::Unsup(_) | Re::SynErr => false,
    }
}

pub fn nullable(re: &Re) -> bool {
    match re {
        Re::Eps => true,
        Re::Cls { .. } => false,
        Re::Cat(xs) => xs.iter().all(nullable),
        Re::Alt(xs) => xs.iter().any(nullable),
        Re::Star(_) | Re::Opt(_) => true,
        Re::Plus(l) => nullable(l),
        Re::Rep(l, m, _) => *m == 0 || nullable(l),
        Re::Unsup(_) | Re::SynErr => false,
    }
}

/// Membership of every character of `chars` in the leaf with concrete syntax `src`.
/// Literals and the dot are decided here (C08 states those facts); classes are measured through
/// the public API on a scanner built from the leaf alone ("the set it denotes when used alone").
pub fn leaf_members(src: &str, chars: &[char]) -> Result<Vec<bool>, String> {
    let ast = Parser::new().parse(src).map_err(|e| e.to_string())?;
    match &ast {
        Ast::Literal(l) => return Ok(chars.iter().map(|c| *c == l.c).collect()),
        Ast::Dot(_) => return Ok(chars.iter().map(|c| *c != '\n' && *c != '\r').collect()),
        _ => {}
    }
    let mode = ScannerMode::new("L", vec![Pattern::new(src.to_string(), 0)], vec![]);
    let sc = ScannerBuilder::new().add_scanner_mode(mode).build_uncached().map_err(|e| e.to_string())?;
    let text: String = chars.iter().collect();
    let mut member = vec![false; chars.len()];
    let idx: BTreeMap<usize, usize> = text.char_indices().enumerate().map(|(k, (b, _))| (b, k)).collect();
    for m in sc.find_iter(&text) {
        let k = idx[&m.start()];
        if m.end() - m.start() != chars[k].len_utf8() {
            return Err(format!("leaf {src} matched more than one character"));
        }
        member[k] = true;
    }
    Ok(member)
}

/// A configuration in real syntax.
#[derive(Clone, Debug)]
pub struct RealPat {
    pub pattern: String,
    pub tt: usize,
    pub la: Option<(bool, String)>,
}
#[derive(Clone, Debug)]
pub struct RealMode {
    pub name: String,
    pub pats: Vec<RealPat>,
    pub trans: Vec<(usize, usize)>,
}

/// The modes as handed to the public API by the scanning-level legs: token types concretised
/// (ttmap), results are mapped back where `Match::token_type()` is read.
pub fn to_scanner_modes(modes: &[RealMode]) -> Vec<ScannerMode> {
    modes_with(modes, crate::ttmap::conc)
}

/// Builds a scanner through one of the public construction paths, rotating over them by the
/// shape of the configuration: `add_scanner_modes`, one `add_scanner_mode` per mode, and (uncached
/// only) `Scanner::try_from(Vec<ScannerMode>)`.
pub fn build_via(sm: &[ScannerMode], cached: bool) -> scnr::Result<scnr::Scanner> {
    let variant = sm.len() + sm.iter().map(|m| m.name().len()).sum::<usize>() + format!("{:?}", sm.first()).len();
    let folded = || sm.iter().fold(ScannerBuilder::new(), |b, m| b.add_scanner_mode(m.clone()));
    if cached {
        if variant % 2 == 0 { ScannerBuilder::new().add_scanner_modes(sm).build() } else { folded().build() }
    } else {
        match variant % 3 {
            0 => ScannerBuilder::new().add_scanner_modes(sm).build_uncached(),
            1 => folded().build_uncached(),
            _ => scnr::Scanner::try_from(sm.to_vec()),
        }
    }
}

/// Token types concretised in an order-preserving way (C17: the keyword list is arranged so that
/// partition groups whose indices differ by exactly 2^16 exist; group order is token-type order)
pub fn to_scanner_modes_mono(modes: &[RealMode]) -> Vec<ScannerMode> {
    modes_with(modes, crate::ttmap::conc_mono)
}

/// The modes with the token types as written (automaton-level legs: dump, DOT export)
pub fn to_scanner_modes_raw(modes: &[RealMode]) -> Vec<ScannerMode> {
    modes_with(modes, |t| t)
}

fn modes_with(modes: &[RealMode], f: fn(usize) -> usize) -> Vec<ScannerMode> {
    modes
        .iter()
        .map(|m| {
            ScannerMode::new(
                &m.name,
                m.pats.iter().map(|p| {
                    let q = Pattern::new(p.pattern.clone(), f(p.tt));
                    match &p.la {
                        Some((pos, l)) => q.with_lookahead(scnr::Lookahead::new(*pos, l.clone())),
                        None => q,
                    }
                }),
                { let mut tr = m.trans.iter().map(|(t, m)| (f(*t), *m)).collect::<Vec<_>>(); tr.sort(); tr },
            )
        })
        .collect()
}

/// Parses all patterns and replaces leaves by atom sets computed over `chars` (distinct
/// characters, e.g. those of the inputs). Returns the configuration and the atom of each char.
pub fn atomise(modes: &[RealMode], chars: &[char]) -> Result<(CfgSpec, Vec<u32>), String> {
    let mut spec = CfgSpec { modes: vec![], simple: false };
    let mut leaves = BTreeSet::new();
    for m in modes {
        let mut pats = vec![];
        for p in &m.pats {
            let re = parse_pattern(&p.pattern);
            collect_leaves(&re, &mut leaves);
            let la = p.la.as_ref().map(|(pos, l)| {
                let r = parse_pattern(l);
                collect_leaves(&r, &mut leaves);
                (*pos, r)
            });
            pats.push(PatSpec { re, tt: p.tt, la });
        }
        spec.modes.push(ModeSpec { name: m.name.clone(), pats, trans: m.trans.clone() });
    }
    // membership vectors
    let leaves: Vec<String> = leaves.into_iter().collect();
    let mut vecs: Vec<Vec<bool>> = vec![vec![]; chars.len()];
    for l in &leaves {
        let mem = leaf_members(l, chars)?;
        for (k, b) in mem.iter().enumerate() {
            vecs[k].push(*b);
        }
    }
    let mut atom_of_vec: BTreeMap<Vec<bool>, u32> = BTreeMap::new();
    let mut atom_of_char = vec![];
    for v in &vecs {
        let n = atom_of_vec.len() as u32 + 1;
        let a = *atom_of_vec.entry(v.clone()).or_insert(n);
        atom_of_char.push(a);
    }
    let mut sets: BTreeMap<String, Vec<u32>> = BTreeMap::new();
    for (li, l) in leaves.iter().enumerate() {
        let mut s: Vec<u32> = atom_of_vec.iter().filter(|(v, _)| v[li]).map(|(_, a)| *a).collect();
        s.sort();
        sets.insert(l.clone(), s);
    }
    for m in spec.modes.iter_mut() {
        for p in m.pats.iter_mut() {
            set_leaves(&mut p.re, &sets);
            if let Some((_, l)) = p.la.as_mut() {
                set_leaves(l, &sets);
            }
        }
    }
    Ok((spec, atom_of_char))
}
