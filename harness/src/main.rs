//! Verification harness for jsinger67/scnr: binds the TLA+ specification in /verif/spec to the
//! real code. Sub-commands are documented in /verif/DESIGN.md section 4.

mod ttmap;
mod ast;
mod classes;
mod dot;
mod dump;
mod exec;
mod large;
mod model;
mod parse;
mod record;
mod replay;
mod serde_check;
mod threads;

/// number of failures that are the harness' own (reported as tool errors, exit 2)
pub static HARNESS_ERRORS: std::sync::atomic::AtomicU64 = std::sync::atomic::AtomicU64::new(0);

fn main() {
    // panics inside scnr are data (exec.rs); keep stderr quiet
    // (a panic that cannot unwind aborts the process: say where it came from first)
    if std::env::var("VERIF_PANIC_VERBOSE").is_err() {
        std::panic::set_hook(Box::new(|info| {
            let msg = info.to_string();
            if msg.contains("unsafe precondition") || msg.contains("cannot unwind") || msg.contains("destructor") {
                eprintln!("non-unwinding panic: {msg}");
            }
        }));
    }
    let args: Vec<String> = std::env::args().collect();
    if args.len() < 2 {
        eprintln!("usage: scnr-verif-harness <replay|...> ...");
        std::process::exit(2);
    }
    if matches!(args[1].as_str(), "replay" | "replay1" | "replay-child" | "record" | "retrace") {
        exec::arm_watchdog();
    }
    let code = match args[1].as_str() {
        "replay" => replay::main(&args[2..]),
        "replay1" => replay::main_one(&args[2..]),
        "replay-child" => replay::main_child(&args[2..]),
        "record" => record::main(&args[2..]),
        "retrace" => record::main_retrace(&args[2..]),
        "dump" => dump::main(&args[2..]),
        "dotcheck" => dot::main(&args[2..]),
        "dotparse" => dot::parse_main(&args[2..]),
        "serde" => serde_check::main(&args[2..]),
        "classes" => classes::main(&args[2..]),
        "threads" => threads::main(&args[2..]),
        "large" => large::main(&args[2..]),
        other => {
            eprintln!("unknown sub-command {other}");
            2
        }
    };
    std::process::exit(code);
}
