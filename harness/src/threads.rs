//! C14: sampled real schedules. N threads released by a barrier run seeded programs of builds
//! (cache hits, misses, failing builds; cached and uncached) and scans on shared and private
//! scanners. Recorded: (i) the cache event log of the verif_hooks (emitted under the cache lock,
//! ordered by a counter incremented under the lock) for spec/Trace_Cache.tla; (ii) per thread,
//! the calls and results for spec/Trace_Api.tla (every thread must observe the sequential
//! results). A thread that does not finish in time is reported as a hang.

use crate::parse::{atomise, RealMode, RealPat};
use crate::record::{cfg_to_json, describe_modes, gen_modes, profile, Batch};
use rand::prelude::*;
use scnr::{Scanner, ScannerBuilder};
use serde_json::{json, Value};
use std::collections::{BTreeSet, HashMap};
use std::io::Write;
use std::sync::{mpsc, Arc, Barrier};
use std::time::Duration;

/// The harness shares a scanner between threads whatever its auto traits are; whether `Scanner`
/// really is `Send + Sync` is decided by the separate probe crate (harness/sendsync).
struct Shared(Scanner);
unsafe impl Send for Shared {}
unsafe impl Sync for Shared {}

#[derive(Clone)]
enum Op {
    Build { cfg: usize, cached: bool, scan: usize },
    ScanShared { input: usize },
    /// one recorded scan, then `rounds` unrecorded scans of the same input that must all give the
    /// same tokens (sustained overlap of scans on shared compiled data)
    Rescan { shared: bool, input: usize, rounds: usize },
    Yield(u32),
}

fn scan_tokens(sc: &Scanner, text: &str) -> Vec<(usize, usize, usize)> {
    sc.find_iter(text).map(|m| (m.token_type(), m.start(), m.end())).collect()
}

fn scan_events(sc: &Scanner, text: &str, sc_handle: usize, inp_id: usize, it_handle: usize, out: &mut Vec<Value>) {
    out.push(json!({"op": "newiter", "sc": sc_handle, "inp": inp_id, "off": 0}));
    let mut it = sc.find_iter(text);
    loop {
        let m = it.next();
        let mode = scnr::ScannerModeSwitcher::current_mode(&it);
        match m {
            Some(m) => out.push(json!({"op": "next", "it": it_handle, "res": [crate::ttmap::abs(m.token_type()), m.start(), m.end()], "mode": mode})),
            None => {
                out.push(json!({"op": "next", "it": it_handle, "res": [], "mode": mode}));
                break;
            }
        }
    }
}

/// `threads <n schedules> <seed> <out dir> <max threads>`
pub fn main(args: &[String]) -> i32 {
    let n_sched: usize = args[0].parse().unwrap();
    let seed: u64 = args[1].parse().unwrap();
    let out = &args[2];
    let max_threads: usize = args[3].parse().unwrap();
    std::fs::create_dir_all(out).unwrap();
    let mut r = StdRng::seed_from_u64(seed ^ 0xc14);
    // the mode graphs of the C06 profile, with lookaheads on a third of the patterns
    let mut prof = profile("c06");
    prof.la_prob = 0.35;
    let mut batch = Batch::new();
    let mut bad_keys: BTreeSet<String> = BTreeSet::new();
    let mut hangs = 0;
    let mut sched_info = vec![];
    scnr::verif::cache_events(true);
    let mut trace_id = 0;
    for s in 0..n_sched {
        // a family of near-identical configurations, fresh for every schedule (so that misses occur)
        let base = gen_modes(&mut r, &prof);
        let mut fam: Vec<Vec<RealMode>> = vec![base.clone()];
        let mut v1 = base.clone();
        v1[0].name = format!("S{s}");
        fam.push(v1);
        let mut v2 = base.clone();
        v2[0].pats.push(RealPat { pattern: format!("q{s}"), tt: 99, la: None });
        fam.push(v2);
        let mut bad = base.clone();
        let lastm = bad.len() - 1;
        bad[lastm].pats.push(RealPat { pattern: ["a*?", "(", "\\bx", "(?i)a"][s % 4].to_string(), tt: 98, la: None });
        fam.push(bad);
        // short ASCII-ish inputs and one long input rich in non-ASCII characters (shared matcher
        // state is most exposed when several threads scan such text with the same compiled data)
        const ALPHA: &[char] = &['a', 'b', 'c', 'x', '0', '1', '_', ' ', '\n', 'é', 'q', '€', '😀', 'α', 'β', 'ω', 'ж', 'я', '日', '本', 'Ω', 'Ж'];
        let mut texts: Vec<String> = (0..2).map(|_| { let len = r.gen_range(0..=40); (0..len).map(|_| *ALPHA.choose(&mut r).unwrap()).collect() }).collect();
        texts.push({ let len = r.gen_range(150..=350); (0..len).map(|_| *ALPHA[8..].choose(&mut r).unwrap()).collect() });
        // specification-side tables
        let mut charset: BTreeSet<char> = BTreeSet::new();
        for t in &texts {
            charset.extend(t.chars());
        }
        let chars: Vec<char> = charset.into_iter().collect();
        let mut cfg_ids = vec![];
        let mut atom_maps = vec![];
        for (k, m) in fam.iter().enumerate() {
            if k == 3 {
                // the failing member: ASTs only
                let spec = crate::model::CfgSpec {
                    modes: m.iter().map(|mm| crate::model::ModeSpec { name: mm.name.clone(),
                        pats: mm.pats.iter().map(|p| crate::model::PatSpec { re: crate::parse::parse_pattern(&p.pattern), tt: p.tt,
                            la: p.la.as_ref().map(|(pos, l)| (*pos, crate::parse::parse_pattern(l))) }).collect(), trans: mm.trans.clone() }).collect(),
                    simple: false,
                };
                batch.cfgs.push(cfg_to_json(&spec));
                cfg_ids.push(batch.cfgs.len());
                atom_maps.push(vec![]);
            } else {
                match atomise(m, &chars) {
                    Ok((spec, am)) => {
                        batch.cfgs.push(cfg_to_json(&spec));
                        cfg_ids.push(batch.cfgs.len());
                        atom_maps.push(am);
                    }
                    Err(e) => {
                        eprintln!("HARNESS-ERROR atomise: {e}");
                        return 2;
                    }
                }
            }
        }
        // inputs are atomised per configuration (atoms differ between configurations)
        let mut inp_ids: Vec<Vec<usize>> = vec![];
        for k in 0..3 {
            inp_ids.push(texts.iter().map(|t| batch.add_input(t, &chars, &atom_maps[k])).collect());
        }
        let shared = Arc::new(Shared(ScannerBuilder::new().add_scanner_modes(&crate::parse::to_scanner_modes(&fam[0])).build().expect("shared scanner")));
        let n_threads = r.gen_range(2..=max_threads);
        let barrier = Arc::new(Barrier::new(n_threads));
        let spin = Arc::new(std::sync::atomic::AtomicUsize::new(0));
        // first-use rounds: configurations nobody has built yet (the shared one under fresh mode
        // names: same behaviour, another cache key); in every round all threads build one of them
        // through the cache at the same moment and scan at once
        const ROUNDS: usize = 3;
        let fresh: Arc<Vec<Vec<RealMode>>> = Arc::new((0..ROUNDS).map(|k| { let mut m = fam[0].clone(); m[0].name = format!("F{s}_{k}"); m }).collect());
        let round_spin: Arc<Vec<std::sync::atomic::AtomicUsize>> = Arc::new((0..2 * ROUNDS).map(|_| std::sync::atomic::AtomicUsize::new(0)).collect());
        let (tx, rx) = mpsc::channel::<(usize, Vec<Value>)>();
        let fam = Arc::new(fam);
        let texts = Arc::new(texts);
        let cfg_ids = Arc::new(cfg_ids);
        let inp_ids = Arc::new(inp_ids);
        for t in 0..n_threads {
            let n_ops = r.gen_range(2..=7);
            let mut ops: Vec<Op> = (0..n_ops)
                .map(|_| match r.gen_range(0..10) {
                    0..=5 => Op::Build { cfg: r.gen_range(0..4), cached: r.gen_bool(0.8), scan: r.gen_range(0..3) },
                    6..=7 => Op::ScanShared { input: if r.gen_bool(0.7) { 2 } else { r.gen_range(0..3) } },
                    _ => Op::Yield(r.gen_range(1..20)),
                })
                .collect();
            // every thread's FIRST call is a scan with compiled data nobody has used yet (the shared
            // scanner, or its own scanner from the cache for the same modes): lazily initialised
            // shared state is initialised under contention; and every thread ends with a burst of
            // scans so that scans of different threads overlap for certain
            ops.insert(0, if t % 2 == 0 { Op::ScanShared { input: 2 } } else { Op::Build { cfg: 0, cached: true, scan: 2 } });
            ops.push(Op::Rescan { shared: t % 3 != 0, input: 2, rounds: 60 });
            let (barrier, tx, fam, texts, cfg_ids, inp_ids, shared) = (barrier.clone(), tx.clone(), fam.clone(), texts.clone(), cfg_ids.clone(), inp_ids.clone(), shared.clone());
            let spin = spin.clone();
            let (fresh, round_spin) = (fresh.clone(), round_spin.clone());
            std::thread::spawn(move || {
                let mut ev: Vec<Value> = vec![];
                let mut n_sc = 0usize;
                let mut n_it = 0usize;
                barrier.wait();
                // ... and then spin until every thread is actually running
                spin.fetch_add(1, std::sync::atomic::Ordering::SeqCst);
                let t_spin = std::time::Instant::now();
                while spin.load(std::sync::atomic::Ordering::SeqCst) < n_threads && t_spin.elapsed() < Duration::from_millis(200) {
                    std::hint::spin_loop();
                }
                for k in 0..ROUNDS {
                    round_spin[k].fetch_add(1, std::sync::atomic::Ordering::SeqCst);
                    let t_spin = std::time::Instant::now();
                    while round_spin[k].load(std::sync::atomic::Ordering::SeqCst) < n_threads && t_spin.elapsed() < Duration::from_millis(200) {
                        std::hint::spin_loop();
                    }
                    let r = std::panic::catch_unwind(std::panic::AssertUnwindSafe(|| {
                        let res = ScannerBuilder::new().add_scanner_modes(&crate::parse::to_scanner_modes(&fresh[k])).build();
                        ev.push(json!({"op": "build", "cfg": cfg_ids[0], "cached": true, "ok": res.is_ok()}));
                        // every thread holds its scanner now: the first scans start together
                        round_spin[ROUNDS + k].fetch_add(1, std::sync::atomic::Ordering::SeqCst);
                        let t_spin = std::time::Instant::now();
                        while round_spin[ROUNDS + k].load(std::sync::atomic::Ordering::SeqCst) < n_threads && t_spin.elapsed() < Duration::from_millis(500) {
                            std::hint::spin_loop();
                        }
                        if let Ok(sc) = res {
                            n_sc += 1;
                            n_it += 1;
                            scan_events(&sc, &texts[k % 2], n_sc, inp_ids[0][k % 2], n_it, &mut ev);
                        }
                    }));
                    if let Err(e) = r {
                        ev.push(json!({"op": "panic", "msg": crate::exec::panic_msg(e)}));
                        break;
                    }
                }
                for op in ops {
                    let r = std::panic::catch_unwind(std::panic::AssertUnwindSafe(|| match &op {
                        Op::Yield(k) => {
                            for _ in 0..*k {
                                std::thread::yield_now();
                            }
                        }
                        Op::ScanShared { input } => {
                            ev.push(json!({"op": "share", "cfg": cfg_ids[0]}));
                            n_sc += 1;
                            n_it += 1;
                            scan_events(&shared.0, &texts[*input], n_sc, inp_ids[0][*input], n_it, &mut ev);
                        }
                        Op::Rescan { shared: use_shared, input, rounds } => {
                            let own;
                            let sc: &Scanner = if *use_shared {
                                ev.push(json!({"op": "share", "cfg": cfg_ids[0]}));
                                &shared.0
                            } else {
                                own = ScannerBuilder::new().add_scanner_modes(&crate::parse::to_scanner_modes(&fam[0])).build().expect("cached build of the shared configuration");
                                ev.push(json!({"op": "build", "cfg": cfg_ids[0], "cached": true, "ok": true}));
                                &own
                            };
                            n_sc += 1;
                            n_it += 1;
                            let first = scan_tokens(sc, &texts[*input]);
                            scan_events(sc, &texts[*input], n_sc, inp_ids[0][*input], n_it, &mut ev);
                            let mut differing = 0;
                            for _ in 0..*rounds {
                                if scan_tokens(sc, &texts[*input]) != first {
                                    differing += 1;
                                }
                            }
                            ev.push(json!({"op": "rescan", "it": n_it, "rounds": rounds, "differing": differing}));
                        }
                        Op::Build { cfg, cached, scan } => {
                            let b = ScannerBuilder::new().add_scanner_modes(&crate::parse::to_scanner_modes(&fam[*cfg]));
                            let res = if *cached { b.build() } else { b.build_uncached() };
                            ev.push(json!({"op": "build", "cfg": cfg_ids[*cfg], "cached": cached, "ok": res.is_ok()}));
                            if let Ok(sc) = res {
                                n_sc += 1;
                                n_it += 1;
                                scan_events(&sc, &texts[*scan], n_sc, inp_ids[*cfg][*scan], n_it, &mut ev);
                            }
                        }
                    }));
                    if let Err(e) = r {
                        ev.push(json!({"op": "panic", "msg": crate::exec::panic_msg(e)}));
                        break;
                    }
                }
                let _ = tx.send((t, ev));
            });
        }
        drop(tx);
        let mut got = 0;
        let deadline = std::time::Instant::now() + Duration::from_secs(30);
        let mut per_thread: Vec<(usize, Vec<Value>)> = vec![];
        while got < n_threads {
            let left = deadline.saturating_duration_since(std::time::Instant::now());
            match rx.recv_timeout(left) {
                Ok(x) => {
                    per_thread.push(x);
                    got += 1;
                }
                Err(_) => break,
            }
        }
        if got < n_threads {
            hangs += 1;
            sched_info.push(json!({"schedule": s, "threads": n_threads, "finished": got, "hang": true, "modes": describe_modes(&fam[0])}));
            break; // the process is no longer in a defined state
        }
        per_thread.sort_by_key(|x| x.0);
        for (t, ev) in per_thread {
            trace_id += 1;
            let first = batch.events.len() + 1;
            batch.events.push(json!({"op": "reset", "trace": trace_id}));
            batch.events.extend(ev);
            batch.meta.push(json!({"trace": trace_id, "first_event": first, "last_event": batch.events.len(), "schedule": s, "thread": t,
                "modes": describe_modes(&fam[0]), "inputs": texts.as_ref()}));
        }
        // which keys failed to build: the fourth member of the family
        bad_keys.insert(format!("{:?}", crate::parse::to_scanner_modes(&fam[3])));
        sched_info.push(json!({"schedule": s, "threads": n_threads, "hang": false}));
    }
    scnr::verif::cache_events(false);
    let events = scnr::verif::take_cache_events();
    // intern keys and threads
    let mut key_ids: HashMap<String, usize> = HashMap::new();
    let mut thr_ids: HashMap<String, usize> = HashMap::new();
    let mut f = std::io::BufWriter::new(std::fs::File::create(format!("{out}/cache_trace.ndjson")).unwrap());
    let mut sorted = events.clone();
    sorted.sort_by_key(|e| e.seq);
    for e in &sorted {
        let nk = key_ids.len() + 1;
        let k = *key_ids.entry(e.key.clone()).or_insert(nk);
        let nt = thr_ids.len() + 1;
        let t = *thr_ids.entry(e.thread.clone()).or_insert(nt);
        let entries = if e.entries == usize::MAX { -1 } else { e.entries as i64 };
        writeln!(f, "{}", json!({"seq": e.seq, "thread": t, "kind": e.kind, "key": k, "entries": entries, "bad": bad_keys.contains(&e.key)})).unwrap();
    }
    drop(f);
    batch.write(out);
    std::fs::write(format!("{out}/threads.json"), serde_json::to_string(&json!({"schedules": sched_info, "hangs": hangs, "cache_events": sorted.len(),
        "distinct_keys": key_ids.len(), "threads_seen": thr_ids.len()})).unwrap()).unwrap();
    println!("{}", json!({"schedules": n_sched, "traces": trace_id, "events": batch.events.len(), "cache_events": sorted.len(), "hangs": hangs,
        "keys": key_ids.len()}));
    0
}
