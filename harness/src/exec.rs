//! Executes call records (the `hist` entries of spec/Gen_Hist.tla, which are also the events of
//! spec/Trace_Api.tla) against scnr's public API. Every call runs under `catch_unwind`: a panic
//! is data, not a harness failure.

use crate::model::CfgSpec;
use scnr::{
    FindMatches, Match, MatchExtIterator, PeekResult, PositionProvider, Scanner, ScannerModeSwitcher,
    WithPositions,
};
use serde_json::{json, Value};
use std::collections::HashMap;
use std::panic::{catch_unwind, AssertUnwindSafe};
use std::sync::Mutex;

pub enum It {
    Plain(FindMatches<'static>),
    Pos(WithPositions<FindMatches<'static>>),
}

static INTERN: Mutex<Option<HashMap<String, &'static str>>> = Mutex::new(None);

/// Watchdog (C07 "scanning always makes progress", C14 "no call deadlocks"): a library call that
/// does not return is a violation, not a tool time-out. Every call registers itself here; a monitor
/// thread aborts the process (SIGABRT, which bin/check reports as a VIOLATION with the message
/// below as its replay information) when one call has been running for longer than the limit.
/// The limit (VERIF_CALL_LIMIT_S, default 120 s) is five orders of magnitude above what a call on
/// the generated worlds takes; the `large` sub-command (C17: builds that legitimately take minutes)
/// never arms it.
static WATCH: Mutex<Option<HashMap<std::thread::ThreadId, (std::time::Instant, String)>>> = Mutex::new(None);
static WATCH_ARMED: std::sync::atomic::AtomicBool = std::sync::atomic::AtomicBool::new(false);

pub fn arm_watchdog() {
    if WATCH_ARMED.swap(true, std::sync::atomic::Ordering::SeqCst) {
        return;
    }
    let limit = std::env::var("VERIF_CALL_LIMIT_S").ok().and_then(|s| s.parse::<u64>().ok()).unwrap_or(120);
    *WATCH.lock().unwrap() = Some(HashMap::new());
    std::thread::spawn(move || loop {
        std::thread::sleep(std::time::Duration::from_millis(500));
        let g = WATCH.lock().unwrap();
        if let Some(m) = g.as_ref() {
            for (start, desc) in m.values() {
                if start.elapsed().as_secs() >= limit {
                    eprintln!("HANG: a library call did not return within {limit} s (no progress). process arguments: {:?}. calls of this history, the last one is the call that hangs: {desc}",
                        std::env::args().collect::<Vec<_>>());
                    std::process::abort();
                }
            }
        }
    });
}

struct WatchGuard(bool);
impl WatchGuard {
    fn enter(recent: &std::collections::VecDeque<String>) -> Self {
        if !WATCH_ARMED.load(std::sync::atomic::Ordering::Relaxed) {
            return WatchGuard(false);
        }
        let desc = recent.iter().cloned().collect::<Vec<_>>().join(" ; ");
        if let Some(m) = WATCH.lock().unwrap().as_mut() {
            m.insert(std::thread::current().id(), (std::time::Instant::now(), desc));
        }
        WatchGuard(true)
    }
}
impl Drop for WatchGuard {
    fn drop(&mut self) {
        if self.0 {
            if let Some(m) = WATCH.lock().unwrap().as_mut() {
                m.remove(&std::thread::current().id());
            }
        }
    }
}

/// Inputs live as long as the process (iterators borrow them); distinct inputs are stored once.
pub fn intern(s: &str) -> &'static str {
    let mut g = INTERN.lock().unwrap();
    let m = g.get_or_insert_with(HashMap::new);
    if let Some(r) = m.get(s) {
        return r;
    }
    let leaked: &'static str = Box::leak(s.to_string().into_boxed_str());
    m.insert(s.to_string(), leaked);
    leaked
}

pub struct World<'a> {
    pub syms: &'a [char],
    pub scanners: Vec<Scanner>,
    /// build_uncached() twins of the scanners built with "twin": true (C13)
    pub twins: Vec<Option<Scanner>>,
    pub iters: Vec<It>,
    pub inputs: Vec<&'static str>,
    /// attach `verif_state()` of plain iterators to every observed record
    pub log_state: bool,
    /// number of `next` calls made so far (rotation over equivalent public calls)
    pub calls: usize,
    /// the last calls of this history (what the watchdog reports when a call does not return)
    pub recent: std::collections::VecDeque<String>,
}

/// A match as the specification sees it: [token type, start, end]. The other accessors of `Match`
/// must agree with these three (span, range, len, is_empty); if they do not, a fourth element
/// makes the result unlike anything the specification admits.
fn tok(m: &Match) -> Value {
    let (s, e) = (m.start(), m.end());
    let consistent = m.span().start == s && m.span().end == e && m.range() == (s..e) && e >= s && m.len() == e - s && m.is_empty() == (s == e)
        && m.span().range() == (s..e) && m.span().len() == e - s;
    if consistent {
        json!([crate::ttmap::abs(m.token_type()), s, e])
    } else {
        json!([crate::ttmap::abs(m.token_type()), s, e, "accessors of Match disagree"])
    }
}

pub fn panic_msg(e: Box<dyn std::any::Any + Send>) -> String {
    if let Some(s) = e.downcast_ref::<&str>() {
        s.to_string()
    } else if let Some(s) = e.downcast_ref::<String>() {
        s.clone()
    } else {
        "panic".to_string()
    }
}

impl<'a> World<'a> {
    pub fn new(syms: &'a [char]) -> Self {
        World { syms, scanners: vec![], twins: vec![], iters: vec![], inputs: vec![], log_state: false, calls: 0, recent: std::collections::VecDeque::new() }
    }

    pub fn word(&self, w: &Value) -> String {
        w.as_array().unwrap().iter().map(|a| self.syms[a.as_u64().unwrap() as usize - 1]).collect()
    }

    /// Runs one call. `cfg_of` resolves a configuration index. `want_pos` says whether a new
    /// iterator is to be wrapped in `WithPositions`.
    pub fn exec(&mut self, ev: &Value, cfg_of: &dyn Fn(u64) -> Option<CfgSpec>, want_pos: bool) -> Value {
        if WATCH_ARMED.load(std::sync::atomic::Ordering::Relaxed) {
            if self.recent.len() >= 24 {
                self.recent.pop_front();
            }
            self.recent.push_back(ev.to_string());
        }
        let guard = WatchGuard::enter(&self.recent);
        let r = catch_unwind(AssertUnwindSafe(|| self.exec_inner(ev, cfg_of, want_pos)));
        drop(guard);
        match r {
            Ok(mut v) => {
                // layer-B binding (MODEL-DRIFT only): the iterator's internal bookkeeping after the call
                if self.log_state {
                    let h = if ev["op"] == "newiter" { Some(self.iters.len().wrapping_sub(1)) } else { ev.get("it").and_then(|x| x.as_u64()).map(|x| x as usize - 1) };
                    if let Some(h) = h {
                        if let Some(It::Plain(f)) = self.iters.get(h) {
                            let st = f.verif_state();
                            // ... and what the public `offset()` reports
                            v["st"] = json!({"offset": st.offset, "last_position": st.last_position, "last_nl": st.last_char == '\n',
                                "line_offsets": st.line_offsets, "offset_fn": f.offset()});
                        }
                    }
                }
                v
            }
            Err(e) => json!({"panic": panic_msg(e)}),
        }
    }

    /// position(o) for each of the given offsets on iterator h (0-based)
    pub fn positions(&mut self, h: usize, offs: &[usize]) -> Value {
        let r = catch_unwind(AssertUnwindSafe(|| {
            offs.iter()
                .map(|o| {
                    let p = match &self.iters[h] {
                        It::Plain(f) => PositionProvider::position(f, *o),
                        It::Pos(f) => PositionProvider::position(f, *o),
                    };
                    json!([p.line, p.column])
                })
                .collect::<Vec<_>>()
        }));
        match r {
            Ok(v) => json!(v),
            Err(e) => json!({"panic": panic_msg(e)}),
        }
    }

    fn exec_inner(&mut self, ev: &Value, cfg_of: &dyn Fn(u64) -> Option<CfgSpec>, want_pos: bool) -> Value {
        let op = ev["op"].as_str().unwrap_or("");
        let h = ev.get("it").and_then(|x| x.as_u64()).map(|x| x as usize - 1);
        match op {
            "build" => {
                let ci = ev["cfg"].as_u64().unwrap();
                let cfg = cfg_of(ci).expect("harness: unknown configuration index");
                let cached = ev.get("cached").and_then(|b| b.as_bool()).unwrap_or(false);
                let twin = ev.get("twin").and_then(|b| b.as_bool()).unwrap_or(false);
                match cfg.build(self.syms, cached) {
                    Ok(s) => {
                        self.scanners.push(s);
                        self.twins.push(if twin { cfg.build(self.syms, false).ok() } else { None });
                        if twin && self.twins.last().unwrap().is_none() {
                            return json!({"ok": true, "twin_failed": true});
                        }
                        json!({"ok": true})
                    }
                    Err(e) => json!({"ok": false, "err": e.to_string()}),
                }
            }
            "newiter" => {
                let s = ev["sc"].as_u64().unwrap() as usize - 1;
                let text = match ev.get("text").and_then(|t| t.as_str()) {
                    Some(t) => t.to_string(),
                    None => self.word(&ev["w"]),
                };
                let input = intern(&text);
                // an abstract offset >= 1 000 000 stands for usize::MAX (TLC's integers are 32 bit)
                let off = ev["off"].as_u64().unwrap_or(0) as usize;
                let off = if off >= 1_000_000 { usize::MAX } else { off };
                let mut fm = self.scanners[s].find_iter(input);
                if off > 0 || ev.get("with").and_then(|b| b.as_bool()).unwrap_or(false) {
                    fm = fm.with_offset(off);
                }
                self.inputs.push(input);
                self.iters.push(if want_pos { It::Pos(fm.with_positions()) } else { It::Plain(fm) });
                json!({})
            }
            "scan" => {
                // a complete scan of an input with a fresh iterator (and with the uncached twin)
                let s = ev["sc"].as_u64().unwrap() as usize - 1;
                let text = self.word(&ev["w"]);
                let toks: Vec<Value> = self.scanners[s].find_iter(&text).map(|m| tok(&m)).collect();
                let twin: Option<Vec<Value>> = self.twins.get(s).and_then(|t| t.as_ref()).map(|t| t.find_iter(&text).map(|m| tok(&m)).collect());
                // the mode names and peek_n(2) at the start, of the scanner and of its uncached twin
                let show = |sc: &Scanner| -> Value {
                    let names: Vec<String> = (0..).map_while(|k| sc.mode_name(k).map(crate::ttmap::abs_name)).collect();
                    let (kind, ms, target): (&str, Vec<Match>, i64) = match sc.find_iter(&text).peek_n(2) {
                        PeekResult::Matches(v) => ("M", v, -1),
                        PeekResult::MatchesReachedEnd(v) => ("E", v, -1),
                        PeekResult::MatchesReachedModeSwitch((v, t)) => ("S", v, t as i64),
                        PeekResult::NotFound => ("N", vec![], -1),
                    };
                    json!({"names": names, "peek": {"kind": kind, "toks": ms.iter().map(tok).collect::<Vec<_>>(), "target": target}})
                };
                let shown = show(&self.scanners[s]);
                let twin_shown = self.twins.get(s).and_then(|t| t.as_ref()).map(show);
                json!({"toks": toks, "twin": twin, "names": shown["names"], "peek": shown["peek"], "twin_shown": twin_shown})
            }
            "next" => {
                let (res, mode) = match &mut self.iters[h.unwrap()] {
                    // the two public spellings of the same call, alternating
                    It::Plain(f) => {
                        self.calls += 1;
                        let m = if self.calls % 2 == 0 { f.next() } else { f.next_match() };
                        (m.map(|m| tok(&m)), f.current_mode())
                    }
                    It::Pos(f) => (f.next().map(|m| json!([crate::ttmap::abs(m.token_type()), m.start(), m.end()])), f.current_mode()),
                };
                json!({"res": res.unwrap_or(json!([])), "mode": mode})
            }
            "nextpos" => match &mut self.iters[h.unwrap()] {
                It::Pos(f) => {
                    let r = f.next();
                    let mode = f.current_mode();
                    match r {
                        Some(m) => json!({"res": [crate::ttmap::abs(m.token_type()), m.start(), m.end()], "mode": mode,
                            "sp": [m.start_position().line, m.start_position().column],
                            "ep": [m.end_position().line, m.end_position().column]}),
                        None => json!({"res": [], "mode": mode, "sp": [], "ep": []}),
                    }
                }
                It::Plain(f) => {
                    // what WithPositions does, spelled out (used when the history also peeks)
                    let r = f.next();
                    let mode = f.current_mode();
                    match r {
                        Some(m) => {
                            let (sp, ep) = (PositionProvider::position(&*f, m.start()), PositionProvider::position(&*f, m.end()));
                            json!({"res": tok(&m), "mode": mode, "sp": [sp.line, sp.column], "ep": [ep.line, ep.column]})
                        }
                        None => json!({"res": [], "mode": mode, "sp": [], "ep": []}),
                    }
                }
            },
            "peek" => {
                // C11 quantifies over all n; TLC's integers are 32 bit: an abstract n >= 1 000 000 stands
                // for usize::MAX ("peek everything that is left")
                let n = ev["n"].as_u64().unwrap() as usize;
                let n = if n >= 1_000_000 { usize::MAX } else { n };
                match &mut self.iters[h.unwrap()] {
                    It::Plain(f) => {
                        let r = f.peek_n(n);
                        let mode = f.current_mode();
                        let (kind, ms, target): (&str, Vec<Match>, i64) = match r {
                            PeekResult::Matches(v) => ("M", v, -1),
                            PeekResult::MatchesReachedEnd(v) => ("E", v, -1),
                            PeekResult::MatchesReachedModeSwitch((v, t)) => ("S", v, t as i64),
                            PeekResult::NotFound => ("N", vec![], -1),
                        };
                        json!({"kind": kind, "toks": ms.iter().map(tok).collect::<Vec<_>>(), "target": target, "mode": mode})
                    }
                    It::Pos(_) => panic!("harness: peek on a WithPositions iterator"),
                }
            }
            "setmode" => {
                let m = ev["m"].as_u64().unwrap() as usize;
                let mode = match &mut self.iters[h.unwrap()] {
                    It::Plain(f) => {
                        f.set_mode(m);
                        f.current_mode()
                    }
                    It::Pos(f) => {
                        f.set_mode(m);
                        f.current_mode()
                    }
                };
                json!({"mode": mode})
            }
            "scsetmode" => {
                let s = ev["sc"].as_u64().unwrap() as usize - 1;
                let m = ev["m"].as_u64().unwrap() as usize;
                self.scanners[s].set_mode(m);
                json!({"scmode": self.scanners[s].current_mode()})
            }
            "setoffset" => {
                let o = ev["o"].as_u64().unwrap() as usize;
                // an abstract offset >= 1 000 000 stands for usize::MAX; the path is chosen by the abstract one
                let c = if o >= 1_000_000 { usize::MAX } else { o };
                let mode = match &mut self.iters[h.unwrap()] {
                    It::Plain(f) => {
                        // the three public paths: the consuming builder `with_offset` on the used
                        // iterator, the PositionProvider trait method and the inherent method
                        if o % 3 == 2 {
                            let old = std::mem::replace(f, self.scanners[0].find_iter(""));
                            *f = old.with_offset(c);
                        } else if o % 2 == 0 {
                            PositionProvider::set_offset(f, c);
                        } else {
                            f.set_offset(c);
                        }
                        f.current_mode()
                    }
                    It::Pos(f) => {
                        f.set_offset(c);
                        f.current_mode()
                    }
                };
                json!({"mode": mode})
            }
            "advance" => {
                let p = ev["p"].as_u64().unwrap() as usize;
                match &mut self.iters[h.unwrap()] {
                    It::Plain(f) => {
                        let ret = f.advance_to(p);
                        json!({"ret": ret, "mode": f.current_mode()})
                    }
                    It::Pos(_) => panic!("harness: advance_to on a WithPositions iterator"),
                }
            }
            "position" => {
                let o = ev["o"].as_u64().unwrap() as usize;
                let (p, mode) = match &self.iters[h.unwrap()] {
                    It::Plain(f) => (PositionProvider::position(f, o), f.current_mode()),
                    It::Pos(f) => (PositionProvider::position(f, o), f.current_mode()),
                };
                json!({"res": [p.line, p.column], "mode": mode})
            }
            "modename" => {
                let k = ev["k"].as_u64().unwrap() as usize;
                let name = match &self.iters[h.unwrap()] {
                    It::Plain(f) => f.mode_name(k).map(crate::ttmap::abs_name),
                    It::Pos(f) => f.mode_name(k).map(crate::ttmap::abs_name),
                };
                json!({"res": name.map(|n| vec![n]).unwrap_or_default()})
            }
            _ => panic!("harness: unknown op {op}"),
        }
    }
}

/// Compares what the specification prescribes (`exp`, a hist entry) with what the code did.
/// Returns a description of the first difference.
pub fn differs(exp: &Value, obs: &Value) -> Option<String> {
    if let Some(p) = obs.get("panic") {
        return Some(format!("the call panicked: {p}"));
    }
    let op = exp["op"].as_str().unwrap_or("");
    let field = |k: &str| -> Option<String> {
        if exp.get(k).is_some() && exp[k] != obs[k] {
            Some(format!("{k}: specification {} , code {}", exp[k], obs[k]))
        } else {
            None
        }
    };
    match op {
        "build" => {
            let want = exp.get("ok").and_then(|b| b.as_bool()).unwrap_or(true);
            if obs["ok"].as_bool() != Some(want) {
                return Some(format!("build: specification ok={want}, code {}", obs));
            }
            if obs.get("twin_failed").is_some() {
                return Some("build() succeeded but build_uncached() of the same modes failed".to_string());
            }
            None
        }
        "newiter" => None,
        "scan" => {
            if exp["toks"] != obs["toks"] {
                return Some(format!("tokens of a full scan: specification {}, code {}", exp["toks"], obs["toks"]));
            }
            if !obs["twin"].is_null() && obs["twin"] != obs["toks"] {
                return Some(format!("cached scanner {} differs from its build_uncached twin {}", obs["toks"], obs["twin"]));
            }
            if exp.get("names").is_some() && exp["names"] != obs["names"] {
                return Some(format!("mode names: specification {}, code {}", exp["names"], obs["names"]));
            }
            if let Some(adm) = exp.get("peekadm").and_then(|a| a.as_array()) {
                if !adm.iter().any(|a| a["kind"] == obs["peek"]["kind"] && a["toks"] == obs["peek"]["toks"] && a["target"] == obs["peek"]["target"]) {
                    return Some(format!("peek_n(2) at the start: admissible {}, code {}", exp["peekadm"], obs["peek"]));
                }
            }
            if !obs["twin_shown"].is_null() && (obs["twin_shown"]["names"] != obs["names"] || obs["twin_shown"]["peek"] != obs["peek"]) {
                return Some(format!("cached scanner shows {} / {}, its build_uncached twin {}", obs["names"], obs["peek"], obs["twin_shown"]));
            }
            None
        }
        "next" => field("res").or_else(|| field("mode")),
        "nextpos" => {
            if let Some(d) = field("res").or_else(|| field("mode")) {
                return Some(d);
            }
            if exp["chk"].as_bool() == Some(true) {
                if exp["sp"] != obs["sp"] {
                    return Some(format!("start position: specification {}, code {}", exp["sp"], obs["sp"]));
                }
                if !exp["ep"].as_array().unwrap().contains(&obs["ep"]) {
                    return Some(format!("end position: admissible {}, code {}", exp["ep"], obs["ep"]));
                }
            }
            None
        }
        "peek" => {
            if exp["toks"] != obs["toks"] {
                return Some(format!("peeked tokens: specification {}, code {}", exp["toks"], obs["toks"]));
            }
            if !exp["kinds"].as_array().unwrap().contains(&obs["kind"]) {
                return Some(format!("peek classification: admissible {}, code {}", exp["kinds"], obs["kind"]));
            }
            if obs["kind"] == "S" && exp["sw"] != obs["target"] {
                return Some(format!("peek target mode: specification {}, code {}", exp["sw"], obs["target"]));
            }
            field("mode")
        }
        "setmode" | "setoffset" | "advance" => field("mode"),
        "scsetmode" => {
            if exp["m"] != obs["scmode"] {
                return Some(format!("scanner mode after set_mode: {} vs {}", exp["m"], obs["scmode"]));
            }
            None
        }
        "position" => {
            if !exp["adm"].as_array().unwrap().contains(&obs["res"]) {
                return Some(format!("position: admissible {}, code {}", exp["adm"], obs["res"]));
            }
            field("mode")
        }
        "modename" => field("res"),
        _ => Some(format!("unknown op {op}")),
    }
}
