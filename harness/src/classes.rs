//! C08: the Rust side of spec/CharClass.tla. Instantiates TLC's class-expression shapes with
//! concrete items, measures base items and whole expressions over all Unicode scalar values
//! through the public API, and reports the realised atoms with the measured membership.

use crate::dump::{leaf_bits, leaf_bits_opt, Bits, N_SCALARS};
use rand::prelude::*;
use serde_json::{json, Value};
use std::collections::BTreeMap;
use std::io::{BufRead, Write};
use std::sync::{Arc, Mutex};

/// concrete items: (text inside a bracket, pattern that denotes the item ALONE)
pub fn item_table() -> Vec<(&'static str, String)> {
    let inb = |s: &str| format!("[{s}]");
    let v: Vec<(&'static str, Option<&'static str>)> = vec![
        ("a", Some("a")), ("f", Some("f")), ("é", Some("é")), ("😀", Some("😀")), ("\\]", Some("\\]")), ("\\-", Some("\\-")), ("\\^", Some("\\^")),
        ("\\\\", Some("\\\\")), ("\\n", Some("\\n")), (" ", Some(" ")),
        ("a-f", None), ("c-x", None), ("x-x", None), ("0-9", None), ("A-Z", None), ("\\u{80}-\\u{10FFFF}", None), ("\\u{D7F0}-\\u{E010}", None),
        ("\\u{FFF0}-\\u{10010}", None), ("é-€", None), ("!-/", None), ("f-g", None), ("g-h", None),
        ("\\d", Some("\\d")), ("\\s", Some("\\s")), ("\\w", Some("\\w")), ("\\D", Some("\\D")), ("\\S", Some("\\S")), ("\\W", Some("\\W")),
        ("[:alpha:]", None), ("[:digit:]", None), ("[:alnum:]", None), ("[:upper:]", None), ("[:lower:]", None), ("[:space:]", None),
        ("[:punct:]", None), ("[:xdigit:]", None), ("[:word:]", None), ("[:ascii:]", None), ("[:blank:]", None), ("[:cntrl:]", None),
        ("[:graph:]", None), ("[:print:]", None), ("[:^alpha:]", None), ("[:^digit:]", None), ("[:^space:]", None),
        ("\\pL", Some("\\pL")), ("\\pN", Some("\\pN")), ("\\p{XID_Start}", Some("\\p{XID_Start}")), ("\\p{Lowercase}", Some("\\p{Lowercase}")),
        ("\\P{Uppercase}", Some("\\P{Uppercase}")), ("\\p{White_Space}", Some("\\p{White_Space}")), ("\\PL", Some("\\PL")),
        (".", Some(".")),
    ];
    v.into_iter().map(|(i, alone)| (i, alone.map(|a| a.to_string()).unwrap_or_else(|| inb(i)))).collect()
}

fn inner(e: &Value, items: &[&str]) -> String {
    match e["op"].as_str().unwrap() {
        "base" => items[e["b"].as_u64().unwrap() as usize - 1].to_string(),
        "union" => e["xs"].as_array().unwrap().iter().map(|x| operand(x, items)).collect(),
        "inter" => format!("{}&&{}", operand(&e["l"], items), operand(&e["r"], items)),
        "diff" => format!("{}--{}", operand(&e["l"], items), operand(&e["r"], items)),
        "symdiff" => format!("{}~~{}", operand(&e["l"], items), operand(&e["r"], items)),
        "neg" | "grp" => bracket(e, items),
        // the empty operand of a set operator: nothing is written (`[a-z&&]`)
        "empty" => String::new(),
        o => panic!("harness: class op {o}"),
    }
}
fn operand(e: &Value, items: &[&str]) -> String {
    if e["op"] == "base" || e["op"] == "empty" {
        inner(e, items)
    } else {
        bracket(e, items)
    }
}
pub fn bracket(e: &Value, items: &[&str]) -> String {
    if e["op"] == "neg" {
        format!("[^{}]", inner(&e["x"], items))
    } else if e["op"] == "grp" {
        format!("[{}]", inner(&e["x"], items))
    } else {
        format!("[{}]", inner(e, items))
    }
}

fn bit(b: &Bits, c: usize) -> bool {
    b[c >> 6] >> (c & 63) & 1 == 1
}

fn members_of(b: &Bits, only_ascii: bool) -> Vec<u32> {
    let hi = if only_ascii { 128 } else { N_SCALARS };
    (0..hi).filter(|c| bit(b, *c)).map(|c| c as u32).collect()
}

pub fn facts() -> Result<Value, String> {
    let mut literals = vec![];
    for l in ["a", "é", "😀", "\\]", "\\-", "\\n", " ", "\\.", "\\\\"] {
        let b = leaf_bits(l)?;
        let ast = regex_syntax::ast::parse::Parser::new().parse(l).map_err(|e| e.to_string())?;
        let cp = match &ast {
            regex_syntax::ast::Ast::Literal(x) => x.c as u32,
            _ => return Err("not a literal".into()),
        };
        // literals are measured through the API as a one-element class to avoid the shortcut in leaf_bits
        let bc = leaf_bits(&format!("[{l}]"))?;
        let _ = b;
        literals.push(json!({"item": l, "cp": cp, "members": members_of(&bc, false)}));
    }
    // every spelling of a literal regex-syntax knows, at top level and as a one-element class,
    // for the characters that mean something elsewhere in the syntax; measured through the API
    let mut unbuilt: Vec<String> = vec![];
    for c in ['.', '*', '+', '?', '(', ')', '[', ']', '{', '}', '|', '^', '$', '\\', '-', '&', '~', '#', '/', ' ', 'a', 'Z', '0', '\n', '\r', '\t',
              '\u{7f}', '\u{80}', '\u{ff}', 'é', '\u{40a}', '€', '😀', '\u{10FFFF}'] {
        let cp = c as u32;
        let mut spell = vec![format!("\\x{{{cp:x}}}"), format!("\\u{{{cp:X}}}"), format!("\\U{cp:08X}"), format!("\\x{{{cp:06x}}}")];
        if cp < 0x100 {
            spell.push(format!("\\x{cp:02X}"));
        }
        if cp < 0x10000 {
            spell.push(format!("\\u{cp:04x}"));
        }
        if c.is_ascii_punctuation() {
            spell.push(format!("\\{c}"));
        }
        if c.is_alphanumeric() || !c.is_ascii() {
            spell.push(c.to_string());
        }
        for sp in spell {
            for src in [sp.clone(), format!("[{sp}]")] {
                match crate::dump::leaf_bits_how(&src, false, false) {
                    Ok(b) => {
                        let m: Vec<u32> = (0..N_SCALARS).filter(|x| bit(&b, *x)).take(4).map(|x| x as u32).collect();
                        literals.push(json!({"item": src, "cp": cp, "members": m}));
                    }
                    Err(e) => unbuilt.push(format!("{src}: {e}")),
                }
            }
        }
    }
    let dot_top: Vec<u32> = { let b = crate::dump::leaf_bits_how(".", false, false)?; (0..=0x10FFFFu32).filter(|c| char::from_u32(*c).is_some() && !bit(&b, *c as usize)).collect() };
    let dotc: Vec<u32> = { let b = leaf_bits("[.]")?; (0..=0x10FFFFu32).filter(|c| char::from_u32(*c).is_some() && !bit(&b, *c as usize)).collect() };
    let mut complements = vec![];
    for (p, n) in [("\\d", "\\D"), ("\\s", "\\S"), ("\\w", "\\W"), ("[\\d]", "[\\D]"), ("[\\w]", "[^\\w]"), ("\\pL", "\\PL")] {
        let (bp, bn) = (leaf_bits(p)?, leaf_bits(n)?);
        let mut atoms: BTreeMap<(bool, bool), u64> = BTreeMap::new();
        for c in (0..=0x10FFFFu32).filter(|c| char::from_u32(*c).is_some()) {
            *atoms.entry((bit(&bp, c as usize), bit(&bn, c as usize))).or_default() += 1;
        }
        complements.push(json!({"pos": p, "neg": n, "atoms": atoms.keys().map(|k| json!([k.0, k.1])).collect::<Vec<_>>()}));
    }
    let mut ranges = vec![];
    for (lo, hi) in [('a', 'f'), ('x', 'x'), ('0', '9'), ('\u{FFF0}', '\u{10010}'), ('\u{D7F0}', '\u{E010}'), ('é', '€'), ('\u{0}', '\u{10FFFF}'), ('f', 'g')] {
        let src = format!("[\\u{{{:X}}}-\\u{{{:X}}}]", lo as u32, hi as u32);
        let b = leaf_bits(&src)?;
        let m = members_of(&b, false);
        ranges.push(json!({"range": src, "lo": lo as u32, "hi": hi as u32, "min": m.first(), "max": m.last(), "count": m.len()}));
    }
    Ok(json!({
        "literals": literals, "dot_complement": dotc, "dot_top_complement": dot_top, "literal_spellings_not_built": unbuilt,
        "digit_ascii": members_of(&*leaf_bits("\\d")?, true), "space_ascii": members_of(&*leaf_bits("\\s")?, true),
        "word_ascii": members_of(&*leaf_bits("\\w")?, true), "complements": complements, "ranges": ranges,
    }))
}

/// `classes <shapes ndjson> <out ndjson> <facts json> <instantiations per shape> <seed> <threads>`
pub fn main(args: &[String]) -> i32 {
    let shapes: Vec<Value> = std::io::BufReader::new(std::fs::File::open(&args[0]).expect("shapes"))
        .lines()
        .map(|l| l.unwrap())
        .filter(|l| !l.trim().is_empty())
        .map(|l| serde_json::from_str(&l).unwrap())
        .collect();
    let n_inst: usize = args[3].parse().unwrap();
    let seed: u64 = args[4].parse().unwrap();
    let threads: usize = args[5].parse().unwrap();
    match facts() {
        Ok(f) => std::fs::write(&args[2], serde_json::to_string(&f).unwrap()).unwrap(),
        Err(e) => {
            eprintln!("HARNESS-ERROR facts: {e}");
            return 2;
        }
    }
    let table = item_table();
    // work list: (shape index, items)
    let mut r = StdRng::seed_from_u64(seed ^ 0xc08);
    let mut work: Vec<(usize, Vec<usize>)> = vec![];
    for (si, _) in shapes.iter().enumerate() {
        for _ in 0..n_inst {
            let pick: Vec<usize> = (0..5).map(|_| r.gen_range(0..table.len())).collect();
            work.push((si, pick));
        }
    }
    let work = Arc::new(work);
    let shapes = Arc::new(shapes);
    let next = Arc::new(std::sync::atomic::AtomicUsize::new(0));
    let results: Arc<Mutex<Vec<(usize, Value)>>> = Arc::new(Mutex::new(vec![]));
    let mut hs = vec![];
    for _ in 0..threads {
        let (work, shapes, next, results) = (work.clone(), shapes.clone(), next.clone(), results.clone());
        let table = item_table();
        hs.push(std::thread::spawn(move || loop {
            let k = next.fetch_add(1, std::sync::atomic::Ordering::SeqCst);
            if k >= work.len() {
                break;
            }
            let (si, pick) = &work[k];
            let items: Vec<&str> = pick.iter().map(|i| table[*i].0).collect();
            let e = &shapes[*si]["e"];
            let src = bracket(e, &items);
            let rec = (|| -> Result<Value, String> {
                let bases: Vec<Arc<Bits>> = pick.iter().map(|i| leaf_bits(&table[*i].1)).collect::<Result<_, _>>()?;
                let whole = leaf_bits_opt(&src, false)?;
                // atoms: realised truth assignments to the five base items
                let mut atoms: BTreeMap<u8, (u64, u64, u32)> = BTreeMap::new(); // key -> (members, non-members, representative)
                for c in (0..=0x10FFFFu32).filter(|c| char::from_u32(*c).is_some()) {
                    let mut key = 0u8;
                    for (j, b) in bases.iter().enumerate() {
                        if bit(b, c as usize) {
                            key |= 1 << j;
                        }
                    }
                    let a = atoms.entry(key).or_insert((0, 0, c));
                    if bit(&whole, c as usize) {
                        a.0 += 1
                    } else {
                        a.1 += 1
                    }
                }
                let atoms_json: Vec<Value> = atoms
                    .iter()
                    .map(|(k, (y, n, rep))| json!({"v": (0..5).map(|j| k >> j & 1 == 1).collect::<Vec<bool>>(), "member": *y > 0,
                        "constant": *y == 0 || *n == 0, "count": y + n, "rep": rep}))
                    .collect();
                Ok(json!({"id": shapes[*si]["id"], "class": src, "items": items, "built": true, "atoms": atoms_json}))
            })();
            let rec = rec.unwrap_or_else(|err| json!({"id": shapes[*si]["id"], "class": src, "items": items, "built": false, "error": err, "atoms": []}));
            results.lock().unwrap().push((k, rec));
        }));
    }
    for h in hs {
        h.join().unwrap();
    }
    let mut res = std::mem::take(&mut *results.lock().unwrap());
    res.sort_by_key(|r| r.0);
    let mut out = std::io::BufWriter::new(std::fs::File::create(&args[1]).unwrap());
    let mut distinct = std::collections::BTreeSet::new();
    for (_, v) in &res {
        distinct.insert(v["class"].as_str().unwrap().to_string());
        writeln!(out, "{}", serde_json::to_string(v).unwrap()).unwrap();
    }
    println!("{}", json!({"shapes": shapes.len(), "measured": res.len(), "distinct_classes": distinct.len()}));
    0
}
