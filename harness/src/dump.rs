//! Automaton dumps for the product explorations of spec/Equiv.tla (C02, C03) and for C18.
//!
//! For every program (a configuration in real syntax) the scanner is built with the minimizer
//! recorder on; the compiled automata are copied through the `verif_dump` hook; the alphabet is
//! reduced to ATOMS over ALL 1 112 064 Unicode scalar values: two characters are in the same atom
//! iff every leaf of the configuration and every registered character class treats them alike.
//! Leaf membership is measured through the public API (one scanner per leaf, one scan over a
//! string holding every scalar once), class membership through `verif_eval_class`.

use crate::ast::Re;
use crate::parse::{parse_pattern, supported, RealMode};
use scnr::verif::AutomatonDump;
use scnr::{Pattern, ScannerBuilder, ScannerMode};
use serde_json::{json, Value};
use std::collections::{BTreeMap, BTreeSet, HashMap};
use std::sync::{Arc, Mutex, OnceLock};

pub const N_SCALARS: usize = 0x110000;

pub fn all_scalars() -> &'static String {
    static S: OnceLock<String> = OnceLock::new();
    S.get_or_init(|| (0..=0x10FFFFu32).filter_map(char::from_u32).collect())
}

/// bit c is set iff the leaf contains the scalar with code point c
pub type Bits = Vec<u64>;
fn bit(b: &Bits, c: usize) -> bool {
    b[c >> 6] >> (c & 63) & 1 == 1
}
fn set(b: &mut Bits, c: usize) {
    b[c >> 6] |= 1 << (c & 63);
}

static LEAF_CACHE: Mutex<Option<HashMap<String, Arc<Bits>>>> = Mutex::new(None);

/// Membership of all scalars in a leaf, measured through the public API.
pub fn leaf_bits(src: &str) -> Result<Arc<Bits>, String> {
    leaf_bits_opt(src, true)
}

/// `cache = false` for one-off measurements (C08 measures ~10^5 distinct whole classes of 139 KB each)
pub fn leaf_bits_opt(src: &str, cache: bool) -> Result<Arc<Bits>, String> {
    leaf_bits_how(src, cache, true)
}

/// `shortcut = false`: top-level literals and the dot are measured through the public API too
/// (C08's base facts) instead of being taken from the parser's AST
pub fn leaf_bits_how(src: &str, cache: bool, shortcut: bool) -> Result<Arc<Bits>, String> {
    if !shortcut {
        debug_assert!(!cache);
    } else if let Some(b) = LEAF_CACHE.lock().unwrap().get_or_insert_with(HashMap::new).get(src) {
        return Ok(b.clone());
    }
    let mut bits = vec![0u64; N_SCALARS / 64];
    let ast = regex_syntax::ast::parse::Parser::new().parse(src).map_err(|e| e.to_string())?;
    match &ast {
        regex_syntax::ast::Ast::Literal(l) if shortcut => set(&mut bits, l.c as usize),
        regex_syntax::ast::Ast::Dot(_) if shortcut => {
            for c in (0..=0x10FFFFu32).filter_map(char::from_u32) {
                if c != '\n' && c != '\r' {
                    set(&mut bits, c as usize);
                }
            }
        }
        _ => {
            let mode = ScannerMode::new("L", vec![Pattern::new(src.to_string(), 0)], vec![]);
            let sc = ScannerBuilder::new().add_scanner_mode(mode).build_uncached().map_err(|e| e.to_string())?;
            let text = all_scalars();
            for m in sc.find_iter(text) {
                let c = text[m.start()..].chars().next().unwrap();
                if m.end() - m.start() != c.len_utf8() {
                    return Err(format!("leaf {src} matched more than one character"));
                }
                set(&mut bits, c as usize);
            }
        }
    }
    let b = Arc::new(bits);
    if cache {
        LEAF_CACHE.lock().unwrap().get_or_insert_with(HashMap::new).insert(src.to_string(), b.clone());
    }
    Ok(b)
}

fn collect_leaves(re: &Re, out: &mut BTreeSet<String>) {
    match re {
        Re::Cls { src: Some(s), .. } => {
            out.insert(s.clone());
        }
        Re::Cat(xs) | Re::Alt(xs) => xs.iter().for_each(|x| collect_leaves(x, out)),
        Re::Star(l) | Re::Plus(l) | Re::Opt(l) | Re::Rep(l, _, _) => collect_leaves(l, out),
        _ => {}
    }
}

fn set_leaves(re: &mut Re, sets: &BTreeMap<String, Vec<u32>>) {
    match re {
        Re::Cls { set, src: Some(s) } => *set = sets[s].clone(),
        Re::Cat(xs) | Re::Alt(xs) => xs.iter_mut().for_each(|x| set_leaves(x, sets)),
        Re::Star(l) | Re::Plus(l) | Re::Opt(l) | Re::Rep(l, _, _) => set_leaves(l, sets),
        _ => {}
    }
}

pub fn automaton_json(a: &AutomatonDump) -> Value {
    // the same transitions grouped by source state (pure re-layout, saves TLC a quadratic filter)
    let mut out: Vec<Vec<Value>> = vec![vec![]; a.n_states];
    for t in &a.transitions {
        out[t.0].push(json!([t.1, t.2]));
    }
    json!({
        "n": a.n_states,
        "out": out,
        "trans": a.transitions.iter().map(|t| json!([t.0, t.1, t.2])).collect::<Vec<_>>(),
        // token types as the specification knows them (the programs are built with concretised ones)
        "acc": a.accepting.iter().map(|t| json!([t.0, crate::ttmap::abs(t.1)])).collect::<Vec<_>>(),
        "prio": a.terminal_ids.iter().map(|t| crate::ttmap::abs(*t)).collect::<Vec<_>>(),
    })
}

pub struct ProgramDump {
    pub cases: Vec<Value>,
    pub dump: scnr::verif::ScannerDump,
}

/// Builds the program, dumps its automata and emits the cases for Equiv.tla.
pub fn dump_program(pid: usize, modes: &[RealMode], origin: &str) -> Result<Option<ProgramDump>, String> {
    // ASTs; programs with unsupported constructs do not build and are not C02's business
    let mut leaves = BTreeSet::new();
    let mut parsed: Vec<Vec<(Re, usize, Option<(bool, Re)>)>> = vec![];
    for m in modes {
        let mut ps = vec![];
        for p in &m.pats {
            let re = parse_pattern(&p.pattern);
            if !supported(&re) {
                return Ok(None);
            }
            collect_leaves(&re, &mut leaves);
            let la = match &p.la {
                Some((pos, l)) => {
                    let r = parse_pattern(l);
                    if !supported(&r) {
                        return Ok(None);
                    }
                    collect_leaves(&r, &mut leaves);
                    Some((*pos, r))
                }
                None => None,
            };
            ps.push((re, p.tt, la));
        }
        parsed.push(ps);
    }
    scnr::verif::minimizer_recording(true);
    let sm = crate::parse::to_scanner_modes(modes);
    let built = std::panic::catch_unwind(|| ScannerBuilder::new().add_scanner_modes(&sm).build_uncached());
    let records = scnr::verif::take_minimizer_records();
    scnr::verif::minimizer_recording(false);
    let sc = match built {
        Ok(Ok(s)) => s,
        Ok(Err(e)) => return Err(format!("supported program does not build: {e}")),
        Err(_) => return Err("build panicked".to_string()),
    };
    let dump = sc.verif_dump();
    // membership over all scalars
    let leaves: Vec<String> = leaves.into_iter().collect();
    let mut preds: Vec<Arc<Bits>> = vec![];
    for l in &leaves {
        preds.push(leaf_bits(l)?);
    }
    let n_classes = dump.classes.len();
    for id in 0..n_classes {
        let mut bits = vec![0u64; N_SCALARS / 64];
        for c in (0..=0x10FFFFu32).filter_map(char::from_u32) {
            if sc.verif_eval_class(id, c) == Some(true) {
                set(&mut bits, c as usize);
            }
        }
        preds.push(Arc::new(bits));
    }
    // atoms
    let np = preds.len();
    let mut atom_of_key: HashMap<Vec<u8>, u32> = HashMap::new();
    let mut keys: Vec<Vec<u8>> = vec![];
    let mut rep: Vec<u32> = vec![];
    let mut count: Vec<u64> = vec![];
    let mut key = vec![0u8; np.div_ceil(8)];
    for c in (0..=0x10FFFFu32).filter_map(char::from_u32) {
        key.iter_mut().for_each(|b| *b = 0);
        for (k, p) in preds.iter().enumerate() {
            if bit(p, c as usize) {
                key[k >> 3] |= 1 << (k & 7);
            }
        }
        match atom_of_key.get(&key) {
            Some(a) => count[*a as usize - 1] += 1,
            None => {
                let a = keys.len() as u32 + 1;
                atom_of_key.insert(key.clone(), a);
                keys.push(key.clone());
                rep.push(c as u32);
                count.push(1);
            }
        }
    }
    let natoms = keys.len();
    let members = |k: usize| -> Vec<u32> {
        (0..natoms).filter(|a| keys[*a][k >> 3] >> (k & 7) & 1 == 1).map(|a| a as u32 + 1).collect()
    };
    let mut leaf_sets: BTreeMap<String, Vec<u32>> = BTreeMap::new();
    for (k, l) in leaves.iter().enumerate() {
        leaf_sets.insert(l.clone(), members(k));
    }
    let cls_atoms: Vec<Vec<u32>> = (0..n_classes).map(|id| members(leaves.len() + id)).collect();
    let mut cases = vec![];
    // the minimizer is called once for every mode automaton and, after it, once for every lookahead
    // of that mode (pattern order): rec_i walks the records in that order
    let mut rec_i = 0usize;
    for (mi, (m, ps)) in dump.modes.iter().zip(parsed.iter_mut()).enumerate() {
        let pre = records.get(rec_i).map(|r| (r.0.n_states, r.0.transitions.len()));
        rec_i += 1 + ps.iter().filter(|p| p.2.is_some()).count();
        let mut pats = vec![];
        for (re, tt, la) in ps.iter_mut() {
            set_leaves(re, &leaf_sets);
            pats.push(json!({"re": re.to_json(), "tt": *tt}));
            if let Some((_, l)) = la.as_mut() {
                set_leaves(l, &leaf_sets);
            }
        }
        cases.push(json!({"kind": "mode", "program": pid, "origin": origin, "mode": mi, "natoms": natoms,
            "pats": pats, "impl": automaton_json(&m.dfa), "impl0": {"n": 0, "out": [], "trans": [], "acc": [], "prio": []},
            "clsAtoms": cls_atoms, "nclasses": n_classes, "rep": rep,
            "pre_n": pre.map(|x| x.0 as i64).unwrap_or(-1), "pre_trans": pre.map(|x| x.1 as i64).unwrap_or(-1),
            "types": ps.iter().map(|p| p.1).collect::<Vec<_>>(),
            "desc": modes[mi].pats.iter().map(|p| p.pattern.clone()).collect::<Vec<_>>()}));
        for (tt, _pos, la_dump) in m.dfa.lookaheads.iter() {
            // the lookahead pattern of the pattern with this token type
            let tt = &(crate::ttmap::abs(*tt) as usize);
            let src = ps.iter().find(|p| p.1 == *tt && p.2.is_some()).and_then(|p| p.2.as_ref());
            if let Some((_, l)) = src {
                // a lookahead automaton accepts with terminal id 0 whatever its pattern's type
                let acc_tt = la_dump.accepting.first().map(|a| crate::ttmap::abs(a.1)).unwrap_or(0);
                cases.push(json!({"kind": "la", "program": pid, "origin": origin, "mode": mi, "natoms": natoms,
                    "pats": [{"re": l.to_json(), "tt": acc_tt}], "impl": automaton_json(la_dump),
                    "impl0": {"n": 0, "out": [], "trans": [], "acc": [], "prio": []},
                    "clsAtoms": cls_atoms, "nclasses": n_classes, "rep": rep, "types": [acc_tt],
                    "desc": [modes[mi].pats.iter().find(|p| p.tt == *tt).and_then(|p| p.la.as_ref()).map(|l| l.1.clone())]}));
            }
        }
    }
    for (k, (input, output)) in records.iter().enumerate() {
        if let Some(out) = output {
            cases.push(json!({"kind": "min", "program": pid, "origin": origin, "mode": k, "natoms": natoms,
                "pats": [], "impl0": automaton_json(input), "impl": automaton_json(out),
                "clsAtoms": cls_atoms, "nclasses": n_classes, "rep": rep, "types": [],
                "desc": input.patterns}));
        } else {
            return Err("minimizer recorded an input without an output".to_string());
        }
    }
    Ok(Some(ProgramDump { cases, dump }))
}

/// Reads a scnr JSON configuration (tests/data/*.json, benches/veryl_modes.json).
pub fn modes_from_json_file(path: &str) -> Vec<RealMode> {
    let v: Value = serde_json::from_str(&std::fs::read_to_string(path).expect("corpus file")).expect("corpus json");
    v.as_array()
        .unwrap()
        .iter()
        .map(|m| RealMode {
            name: m["name"].as_str().unwrap().to_string(),
            pats: m["patterns"]
                .as_array()
                .unwrap()
                .iter()
                .map(|p| crate::parse::RealPat {
                    pattern: p["pattern"].as_str().unwrap().to_string(),
                    tt: p["token_type"].as_u64().unwrap() as usize,
                    la: p.get("lookahead").filter(|l| !l.is_null()).map(|l| {
                        (l["is_positive"].as_bool().unwrap(), l["pattern"].as_str().unwrap().to_string())
                    }),
                })
                .collect(),
            trans: m["transitions"].as_array().unwrap().iter().map(|t| (t[0].as_u64().unwrap() as usize, t[1].as_u64().unwrap() as usize)).collect(),
        })
        .collect()
}

pub fn corpus_files() -> Vec<String> {
    let mut v: Vec<String> = std::fs::read_dir("/repo/scnr/tests/data")
        .map(|d| {
            d.filter_map(|e| e.ok())
                .map(|e| e.path().to_string_lossy().to_string())
                .filter(|p| p.ends_with(".json") && !p.ends_with("_tokens.json"))
                .collect()
        })
        .unwrap_or_default();
    v.sort();
    if std::path::Path::new("/repo/scnr/benches/veryl_modes.json").exists() {
        v.push("/repo/scnr/benches/veryl_modes.json".to_string());
    }
    v
}

/// Programs from the sources given on the command line:
///   tables:<path>            configurations of a TLC-written tables file
///   random:<profile>:<n>:<seed>
///   corpus                   the repository's JSON configurations
pub fn programs_from(sources: &[String]) -> Vec<(String, Vec<RealMode>)> {
    use rand::SeedableRng;
    let mut progs = vec![];
    for s in sources {
        if let Some(path) = s.strip_prefix("tables:") {
            let t = crate::replay::load_tables(path);
            for (k, c) in t.cfgs.iter().enumerate() {
                let modes: Vec<RealMode> = c
                    .modes
                    .iter()
                    .map(|m| RealMode {
                        name: m.name.clone(),
                        pats: m
                            .pats
                            .iter()
                            .map(|p| crate::parse::RealPat {
                                pattern: p.re.print_top(&t.syms),
                                tt: p.tt,
                                la: p.la.as_ref().map(|(pos, l)| (*pos, l.print(&t.syms))),
                            })
                            .collect(),
                        trans: m.trans.clone(),
                    })
                    .collect();
                progs.push((format!("{path}#{}", k as u64 + t.lo), modes));
            }
        } else if let Some(rest) = s.strip_prefix("random:") {
            let parts: Vec<&str> = rest.split(':').collect();
            let p = crate::record::profile(parts[0]);
            let n: usize = parts[1].parse().unwrap();
            let seed: u64 = parts[2].parse().unwrap();
            let mut r = rand::rngs::StdRng::seed_from_u64(seed ^ 0xd0_d0);
            for k in 0..n {
                let mut modes = crate::record::gen_modes(&mut r, &p);
                crate::record::share_types(&mut r, &mut modes);
                progs.push((format!("random:{}:{seed}#{k}", parts[0]), modes));
            }
        } else if s == "classpairs" {
            // every ordered pair of leaf classes that are easy to confuse (same text up to case,
            // braces, negation, escapes): targets the de-duplication in the class registry
            let pool = ["\\pL", "\\PL", "\\p{Lowercase}", "\\P{Lowercase}", "\\p{Uppercase}", "\\pN", "\\PN", "\\d", "\\D", "\\w", "\\W", "\\s", "\\S",
                "[a-c]", "[^a-c]", "[a-cx]", "[A-C]", "[abc]", "[a-c&&b-x]", "[a-c--b]", "[[:alpha:]]", "[[:^alpha:]]", "[[:lower:]]", "[\\pL]",
                "[^\\pL]", "[\\PL]", "a", "A", "\\.", ".", "[.]", "[\\.]", "é", "\\u{e9}", "\\n", "[\\n]"];
            for (i, a) in pool.iter().enumerate() {
                for (j, b) in pool.iter().enumerate() {
                    let pats = vec![
                        crate::parse::RealPat { pattern: format!("{a}+"), tt: 1, la: None },
                        crate::parse::RealPat { pattern: format!("x{b}"), tt: 2, la: if (i + j) % 3 == 0 { Some((true, format!("{a}|{b}{b}"))) } else { None } },
                        crate::parse::RealPat { pattern: format!("{b}"), tt: 3, la: None },
                    ];
                    progs.push((format!("classpairs#{i}-{j}"), vec![RealMode { name: "M".into(), pats, trans: vec![] }]));
                }
            }
        } else if s == "sharedtt" {
            // several patterns of one mode reporting the same token type (C02 speaks of the SET of
            // token types that have a matching pattern): chains that need several refinement
            // rounds in the minimiser next to one-character patterns, all 3- and 4-subsets
            let pool = ["a", "b", "c", "ab", "aab", "aaab", "aaaab", "ba", "[ab]+", "ab|ac", "a+b", "(ab)*c"];
            let tts3: [[usize; 3]; 3] = [[1, 1, 1], [1, 1, 2], [2, 1, 2]];
            let tts4: [[usize; 4]; 3] = [[1, 1, 2, 2], [1, 1, 1, 2], [3, 1, 1, 1]];
            let n = pool.len();
            let mk = |idx: &[usize], tts: &[usize]| -> Vec<RealMode> {
                vec![RealMode { name: "M".into(), trans: vec![],
                    pats: idx.iter().zip(tts).map(|(i, t)| crate::parse::RealPat { pattern: pool[*i].to_string(), tt: *t, la: None }).collect() }]
            };
            for i in 0..n {
                for j in 0..n {
                    for k in 0..n {
                        if i != j && j != k && i != k && i < k {
                            progs.push((format!("sharedtt#{i}-{j}-{k}"), mk(&[i, j, k], &tts3[(i + j + k) % 3])));
                        }
                        for l in (k + 1)..n {
                            if i < j && j < k {
                                progs.push((format!("sharedtt#{i}-{j}-{k}-{l}"), mk(&[i, j, k, l], &tts4[(i + j + k + l) % 3])));
                            }
                        }
                    }
                }
            }
        } else if let Some(rest) = s.strip_prefix("tries:") {
            // word lists over a five-letter alphabet as alternations, some with optional tails: many
            // states that differ only two or three steps ahead (an over-eager minimiser merges them)
            let parts: Vec<&str> = rest.split(':').collect();
            let n: usize = parts[0].parse().unwrap();
            let seed: u64 = parts[1].parse().unwrap();
            use rand::prelude::*;
            let mut r = StdRng::seed_from_u64(seed ^ 0x7e1e5);
            let letters = ['a', 'b', 'c', 'd', 'e'];
            let word = |r: &mut StdRng| -> String { let l = r.gen_range(2..=4); (0..l).map(|_| *letters.choose(r).unwrap()).collect() };
            let fixed = ["a(bc)?|d(be)?", "s(ta|ub)|m(ti|ux)", "a(bc)*|d(be)*", "a(bcd)?|e(bcf)?", "x(ya|zb)c|w(yd|ze)c", "(ab|cd)(ef)?|(ad|cb)(eg)?"];
            for (k, p) in fixed.iter().enumerate() {
                progs.push((format!("tries#fixed{k}"), vec![RealMode { name: "M".into(), trans: vec![],
                    pats: vec![crate::parse::RealPat { pattern: p.to_string(), tt: 7, la: None }, crate::parse::RealPat { pattern: "[a-z]".into(), tt: 2, la: None }] }]));
            }
            for k in 0..n {
                let np = r.gen_range(1..=2);
                let mut pats = vec![];
                for pi in 0..np {
                    let nw = r.gen_range(3..=7);
                    let alts: Vec<String> = (0..nw).map(|_| {
                        let w = word(&mut r);
                        if w.len() >= 3 && r.gen_bool(0.4) {
                            let cut = r.gen_range(1..w.len());
                            format!("{}({}){}", &w[..cut], &w[cut..], if r.gen_bool(0.7) { "?" } else { "*" })
                        } else { w }
                    }).collect();
                    pats.push(crate::parse::RealPat { pattern: alts.join("|"), tt: [7usize, 2, 13][pi], la: None });
                }
                progs.push((format!("tries#{k}"), vec![RealMode { name: "M".into(), pats, trans: vec![] }]));
            }
        } else if s == "chains" {
            // automata that need many refinement rounds in the minimiser, well below the sizes of C17
            for (k, p) in ["a{600}b", "(ab){300}c", "a{520}", "x[0-9]{530}y|x[0-9]{529}z"].iter().enumerate() {
                progs.push((format!("chains#{k}"), vec![RealMode { name: "M".into(), trans: vec![],
                    pats: vec![crate::parse::RealPat { pattern: p.to_string(), tt: 7, la: None }, crate::parse::RealPat { pattern: "c+".into(), tt: 2, la: None }] }]));
            }
        } else if s == "congruent" {
            // token types that agree modulo 2^32 once concretised (5/13, 10/14) on accepting states that
            // behave alike: anything that keys by a narrowed token type merges them
            let shapes: [[&str; 4]; 4] = [["a", "b", "cd", "ce+"], ["a", "b", "c", "d"], ["ab", "ac", "b+", "c"], ["x?a", "x?b", "a+b", "b+a"]];
            for (k, sh) in shapes.iter().enumerate() {
                for (j, tts) in [[5usize, 13, 13, 5], [13, 5, 10, 14], [10, 14, 5, 13], [14, 10, 14, 10]].iter().enumerate() {
                    progs.push((format!("congruent#{k}-{j}"), vec![RealMode { name: "M".into(), trans: vec![],
                        pats: sh.iter().zip(tts.iter()).map(|(p, t)| crate::parse::RealPat { pattern: p.to_string(), tt: *t, la: None }).collect() }]));
                }
            }
        } else if s == "corpus" {
            for f in corpus_files() {
                progs.push((f.clone(), modes_from_json_file(&f)));
            }
        } else {
            panic!("harness: unknown program source {s}");
        }
    }
    progs
}

/// `dump <out dir> <threads> <source>...` -> <out>/cases.json
pub fn main(args: &[String]) -> i32 {
    let out = &args[0];
    let threads: usize = args[1].parse().unwrap();
    let progs = programs_from(&args[2..]);
    std::fs::create_dir_all(out).unwrap();
    let progs = Arc::new(progs);
    let next = Arc::new(std::sync::atomic::AtomicUsize::new(0));
    let results: Arc<Mutex<Vec<(usize, Vec<Value>)>>> = Arc::new(Mutex::new(vec![]));
    let problems: Arc<Mutex<Vec<Value>>> = Arc::new(Mutex::new(vec![]));
    let skipped = Arc::new(std::sync::atomic::AtomicUsize::new(0));
    let mut hs = vec![];
    for _ in 0..threads {
        let (progs, next, results, problems, skipped) = (progs.clone(), next.clone(), results.clone(), problems.clone(), skipped.clone());
        hs.push(std::thread::spawn(move || loop {
            let k = next.fetch_add(1, std::sync::atomic::Ordering::SeqCst);
            if k >= progs.len() {
                break;
            }
            match dump_program(k + 1, &progs[k].1, &progs[k].0) {
                Ok(Some(d)) => results.lock().unwrap().push((k, d.cases)),
                Ok(None) => {
                    skipped.fetch_add(1, std::sync::atomic::Ordering::SeqCst);
                }
                Err(e) => problems.lock().unwrap().push(json!({"program": k + 1, "origin": progs[k].0,
                    "modes": crate::record::describe_modes_raw(&progs[k].1), "problem": e})),
            }
        }));
    }
    for h in hs {
        h.join().unwrap();
    }
    let mut res = std::mem::take(&mut *results.lock().unwrap());
    res.sort_by_key(|r| r.0);
    let cases: Vec<Value> = res.into_iter().flat_map(|r| r.1).collect();
    let programs: Vec<Value> = progs.iter().enumerate().map(|(k, p)| json!({"program": k + 1, "origin": p.0, "modes": crate::record::describe_modes_raw(&p.1)})).collect();
    std::fs::write(format!("{out}/cases.json"), serde_json::to_string(&cases).unwrap()).unwrap();
    std::fs::write(format!("{out}/programs.json"), serde_json::to_string(&programs).unwrap()).unwrap();
    let problems = problems.lock().unwrap().clone();
    std::fs::write(format!("{out}/problems.json"), serde_json::to_string(&problems).unwrap()).unwrap();
    println!("{}", json!({"programs": progs.len(), "cases": cases.len(), "skipped_unsupported": skipped.load(std::sync::atomic::Ordering::SeqCst), "problems": problems.len()}));
    0
}
