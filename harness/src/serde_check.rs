//! C16: the Rust side of spec/SerdeLayout.tla.

use scnr::{Lookahead, Match, MatchExt, Pattern, Position, ScannerBuilder, ScannerMode, Span};
use serde_json::{json, Value};
use std::io::{BufRead, Write};

/// strings with quotes, backslashes, control and non-ASCII characters; the patterns are valid
/// regexes (raw special characters are literals)
pub fn pool() -> Value {
    json!({
        "names": ["INITIAL", "q\"uote", "back\\slash", "ctl\u{1}x\ty", "ünï€😀", "", "new\nline"],
        "patterns": ["a", "\"", "\\\\", "\u{7}", "é€😀+", "[\"\\\\]+", "\t|\\n", "", "\\u{22}x'", "/\\*([^*]|\\*[^/])*\\*/"],
        "lookaheads": ["b", "\"", "\\\\|é"],
    })
}

/// TLC's Json module has no null; a field serialised as null is read as an absent field
fn strip_nulls(v: &mut Value) {
    match v {
        Value::Object(m) => {
            m.retain(|_, x| !x.is_null());
            for (_, x) in m.iter_mut() {
                strip_nulls(x);
            }
        }
        Value::Array(a) => a.iter_mut().for_each(strip_nulls),
        _ => {}
    }
}

/// Token types are concretised (ttmap) before the value goes through the API and serde, and mapped
/// back in what TLC reads (TLC's integers are 32 bit): every "token_type" member and the first
/// element of every pair under "transitions".
fn map_token_types(v: &mut Value, f: &dyn Fn(u64) -> u64) {
    match v {
        Value::Object(m) => {
            for (k, x) in m.iter_mut() {
                if k == "token_type" {
                    if let Some(n) = x.as_u64() {
                        *x = json!(f(n));
                    }
                } else if k == "transitions" {
                    if let Some(a) = x.as_array_mut() {
                        for t in a.iter_mut() {
                            if let Some(n) = t.get(0).and_then(|n| n.as_u64()) {
                                t[0] = json!(f(n));
                            }
                        }
                    }
                } else {
                    map_token_types(x, f);
                }
            }
        }
        Value::Array(a) => a.iter_mut().for_each(|x| map_token_types(x, f)),
        _ => {}
    }
}
/// Offsets and positions: the abstract 2147483640 stands for 2^53 + 1 (an integer a 64-bit float
/// cannot hold), in every "start", "end", "line", "column" member.
const BIG_ABS: u64 = 2_147_483_640;
const BIG_CONC: u64 = (1 << 53) + 1;
fn map_offsets(v: &mut Value, from: u64, to: u64) {
    match v {
        Value::Object(m) => {
            for (k, x) in m.iter_mut() {
                if ["start", "end", "line", "column"].contains(&k.as_str()) && x.as_u64() == Some(from) {
                    *x = json!(to);
                } else {
                    map_offsets(x, from, to);
                }
            }
        }
        Value::Array(a) => a.iter_mut().for_each(|x| map_offsets(x, from, to)),
        _ => {}
    }
}
fn conc_json(v: &Value) -> Value {
    let mut c = v.clone();
    map_token_types(&mut c, &|n| crate::ttmap::conc_mono(n as usize) as u64);
    map_offsets(&mut c, BIG_ABS, BIG_CONC);
    c
}
fn abs_json(mut v: Value) -> Value {
    map_token_types(&mut v, &|n| crate::ttmap::abs(n as usize));
    map_offsets(&mut v, BIG_CONC, BIG_ABS);
    v
}

fn probe_inputs() -> Vec<String> {
    vec!["a\"\\\u{7}é€😀😀\t\n\"x'/* c */ab".to_string(), "".to_string(), "\\\\\"\"é€😀b\\é".to_string(), "/**/a\"b".to_string()]
}

fn scan_all(modes: &[ScannerMode]) -> Result<Vec<Vec<(usize, usize, usize)>>, String> {
    let sc = ScannerBuilder::new().add_scanner_modes(modes).build_uncached().map_err(|e| e.to_string())?;
    Ok(probe_inputs().iter().map(|t| sc.find_iter(t).map(|m| (m.token_type(), m.start(), m.end())).collect()).collect())
}

fn modes_via_api(v: &Value) -> Vec<ScannerMode> {
    v.as_array()
        .unwrap()
        .iter()
        .map(|m| {
            ScannerMode::new(
                m["name"].as_str().unwrap(),
                m["patterns"].as_array().unwrap().iter().map(|p| {
                    let q = Pattern::new(p["pattern"].as_str().unwrap().to_string(), p["token_type"].as_u64().unwrap() as usize);
                    match p.get("lookahead") {
                        Some(l) => q.with_lookahead(Lookahead::new(l["is_positive"].as_bool().unwrap(), l["pattern"].as_str().unwrap().to_string())),
                        None => q,
                    }
                }),
                m["transitions"].as_array().unwrap().iter().map(|t| (t[0].as_u64().unwrap() as usize, t[1].as_u64().unwrap() as usize)),
            )
        })
        .collect()
}

/// `serde pool <file>` | `serde run <tlc ndjson> <out ndjson> <readme path>`
pub fn main(args: &[String]) -> i32 {
    if args[0] == "pool" {
        std::fs::write(&args[1], serde_json::to_string(&pool()).unwrap()).unwrap();
        return 0;
    }
    let input = std::io::BufReader::new(std::fs::File::open(&args[1]).expect("tlc file"));
    let mut out = std::io::BufWriter::new(std::fs::File::create(&args[2]).unwrap());
    let mut n = 0;
    for line in input.lines() {
        let line = line.unwrap();
        if line.trim().is_empty() {
            continue;
        }
        n += 1;
        let rec: Value = serde_json::from_str(&line).expect("tlc line");
        let kind = rec["kind"].as_str().unwrap();
        let id = rec["id"].clone();
        let val = &conc_json(&rec["value"]);
        let text = serde_json::to_string(val).unwrap();
        let r = std::panic::catch_unwind(|| -> Value {
            match kind {
                "modes" => match serde_json::from_str::<Vec<ScannerMode>>(&text) {
                    Err(e) => json!({"deserialized": false, "error": e.to_string()}),
                    Ok(de) => {
                        let api = modes_via_api(val);
                        let ser = serde_json::to_string(&de).unwrap();
                        let again: Result<Vec<ScannerMode>, _> = serde_json::from_str(&ser);
                        let same = match (scan_all(&de), scan_all(&api)) {
                            (Ok(a), Ok(b)) => a == b,
                            (Err(a), Err(b)) => a == b,
                            _ => false,
                        };
                        json!({"deserialized": true, "equals_api_value": de == api, "value": abs_json(serde_json::from_str::<Value>(&ser).unwrap()),
                            "roundtrip_equal": again.map(|a| a == de).unwrap_or(false), "same_behaviour": same})
                    }
                },
                "span" => match serde_json::from_str::<Span>(&text) {
                    Err(e) => json!({"deserialized": false, "error": e.to_string()}),
                    Ok(de) => {
                        let api = Span::new(val["start"].as_u64().unwrap() as usize, val["end"].as_u64().unwrap() as usize);
                        let ser = serde_json::to_string(&de).unwrap();
                        json!({"deserialized": true, "equals_api_value": de == api, "value": abs_json(serde_json::from_str::<Value>(&ser).unwrap()),
                            "roundtrip_equal": serde_json::from_str::<Span>(&ser).map(|a| a == de).unwrap_or(false)})
                    }
                },
                "position" => match serde_json::from_str::<Position>(&text) {
                    Err(e) => json!({"deserialized": false, "error": e.to_string()}),
                    Ok(de) => {
                        let api = Position::new(val["line"].as_u64().unwrap() as usize, val["column"].as_u64().unwrap() as usize);
                        let ser = serde_json::to_string(&de).unwrap();
                        json!({"deserialized": true, "equals_api_value": de == api, "value": abs_json(serde_json::from_str::<Value>(&ser).unwrap()),
                            "roundtrip_equal": serde_json::from_str::<Position>(&ser).map(|a| a == de).unwrap_or(false)})
                    }
                },
                "match" => match serde_json::from_str::<Match>(&text) {
                    Err(e) => json!({"deserialized": false, "error": e.to_string()}),
                    Ok(de) => {
                        let api = Match::new(val["token_type"].as_u64().unwrap() as usize,
                            Span::new(val["span"]["start"].as_u64().unwrap() as usize, val["span"]["end"].as_u64().unwrap() as usize));
                        let ser = serde_json::to_string(&de).unwrap();
                        json!({"deserialized": true, "equals_api_value": de == api && de.token_type() == api.token_type() && de.start() == api.start() && de.end() == api.end(),
                            "value": abs_json(serde_json::from_str::<Value>(&ser).unwrap()),
                            "roundtrip_equal": serde_json::from_str::<Match>(&ser).map(|a| a == de).unwrap_or(false)})
                    }
                },
                "matchext" => match serde_json::from_str::<MatchExt>(&text) {
                    Err(e) => json!({"deserialized": false, "error": e.to_string()}),
                    Ok(de) => {
                        let p = |k: &str| Position::new(val[k]["line"].as_u64().unwrap() as usize, val[k]["column"].as_u64().unwrap() as usize);
                        // MatchExt has no public constructor: compare through its accessors
                        let fields_ok = de.token_type() == val["token_type"].as_u64().unwrap() as usize
                            && de.span() == Span::new(val["span"]["start"].as_u64().unwrap() as usize, val["span"]["end"].as_u64().unwrap() as usize)
                            && de.start_position() == p("start_position")
                            && de.end_position() == p("end_position");
                        let ser = serde_json::to_string(&de).unwrap();
                        json!({"deserialized": true, "equals_api_value": fields_ok,
                            "value": abs_json(serde_json::from_str::<Value>(&ser).unwrap()),
                            "roundtrip_equal": serde_json::from_str::<MatchExt>(&ser).map(|a| a == de).unwrap_or(false)})
                    }
                },
                _ => json!({"deserialized": false, "error": "unknown kind"}),
            }
        });
        let mut o = match r {
            Ok(v) => v,
            Err(e) => json!({"deserialized": false, "error": format!("panic: {}", crate::exec::panic_msg(e))}),
        };
        // TLC's LineOK reads every flag: give absent ones a value
        for k in ["equals_api_value", "roundtrip_equal", "same_behaviour"] {
            if o.get(k).is_none() {
                o[k] = json!(kind != "modes" && k == "same_behaviour");
            }
        }
        if o.get("value").is_none() {
            o["value"] = json!([]);
        }
        strip_nulls(&mut o["value"]);
        o["kind"] = json!(kind);
        o["id"] = id;
        writeln!(out, "{}", serde_json::to_string(&o).unwrap()).unwrap();
    }
    // the README's JSON block, verbatim
    let readme = std::fs::read_to_string(&args[3]).unwrap_or_default();
    let block = readme.split("```json").nth(1).and_then(|r| r.split("```").next()).unwrap_or("");
    let de = serde_json::from_str::<Vec<ScannerMode>>(block);
    let builds = de.as_ref().map(|m| ScannerBuilder::new().add_scanner_modes(m).build_uncached().is_ok()).unwrap_or(false);
    writeln!(out, "{}", json!({"kind": "readme", "id": 0, "deserialized": de.is_ok(), "builds": builds, "modes": de.map(|m| m.len()).unwrap_or(0)})).unwrap();
    println!("{}", json!({"values": n}));
    0
}
