//! C14, static side condition: `Scanner` is `Send` and `Sync`. This crate compiles iff it is;
//! bin/check translates a compile error E0277 here into a violation of C14.
fn assert_send_sync<T: Send + Sync>() {}
fn assert_send<T: Send>() {}

fn main() {
    assert_send_sync::<scnr::Scanner>();
    assert_send_sync::<scnr::ScannerMode>();
    assert_send_sync::<scnr::Pattern>();
    assert_send_sync::<scnr::Match>();
    // an iterator may be moved to another thread together with its input
    assert_send::<scnr::FindMatches<'static>>();
}
