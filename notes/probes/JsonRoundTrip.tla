---- MODULE P2 ----
EXTENDS Naturals, Sequences, TLC, Json, IOUtils
R == ndJsonDeserialize("s.ndjson")
Cfg == [name |-> R[1].s, patterns |-> << [pattern |-> R[1].s, token_type |-> 3], [pattern |-> "x", token_type |-> 0, lookahead |-> [is_positive |-> FALSE, pattern |-> "\\d"]] >>, transitions |-> << <<3, 1>> >>]
ASSUME PrintT(ToJson(<<Cfg>>))
ASSUME ndJsonSerialize("out.ndjson", <<Cfg>>)
ASSUME PrintT(Len(R[1].s))
VARIABLE x
Init == x = 0
Next == x' = x
====
