---- MODULE P4 ----
EXTENDS Naturals, Sequences, TLC, Json
VARIABLES a, b, c, h
Init == a \in 1..30 /\ b \in 1..30 /\ c = 0 /\ h = <<>>
Next == c < 3 /\ c' = c + 1 /\ \E x \in 1..3 : h' = Append(h, [op |-> "next", x |-> x, s |-> "str\"q"]) /\ UNCHANGED <<a, b>>
Emit == c = 3 => PrintT(<<"REPLAY", ToJson([a |-> a, b |-> b, h |-> h])>>)
====
