use rand::prelude::*;
use scnr::*;
use std::collections::BTreeSet;
use std::panic::{catch_unwind, AssertUnwindSafe};

#[derive(Clone, Debug)]
enum Re { Eps, Cls(Vec<char>), Cat(Box<Re>, Box<Re>), Alt(Vec<Re>), Star(Box<Re>), Plus(Box<Re>), Opt(Box<Re>), Rep(Box<Re>, u32, Option<u32>) }
impl Re {
    fn s(&self) -> String {
        match self {
            Re::Eps => "()".into(),
            Re::Cls(v) => if v.len() == 1 { v[0].to_string().replace('\n', "\\n") } else { format!("[{}]", v.iter().map(|c| c.to_string().replace('\n', "\\n")).collect::<String>()) },
            Re::Cat(a, b) => format!("{}{}", a.g(), b.g()),
            Re::Alt(v) => v.iter().map(|r| match r { Re::Eps => String::new(), _ => r.g() }).collect::<Vec<_>>().join("|"),
            Re::Star(a) => format!("{}*", a.a()), Re::Plus(a) => format!("{}+", a.a()), Re::Opt(a) => format!("{}?", a.a()),
            Re::Rep(a, m, Some(n)) => if m == n { format!("{}{{{}}}", a.a(), m) } else { format!("{}{{{},{}}}", a.a(), m, n) },
            Re::Rep(a, m, None) => format!("{}{{{},}}", a.a(), m),
        }
    }
    fn g(&self) -> String { match self { Re::Alt(_) => format!("({})", self.s()), _ => self.s() } }
    fn a(&self) -> String { match self { Re::Cls(_) => self.s(), _ => format!("({})", self.s()) } }
    fn ends(&self, w: &[char], i: usize) -> BTreeSet<usize> {
        match self {
            Re::Eps => [i].into(),
            Re::Cls(v) => if i < w.len() && v.contains(&w[i]) { [i + 1].into() } else { BTreeSet::new() },
            Re::Cat(a, b) => a.ends(w, i).into_iter().flat_map(|k| b.ends(w, k)).collect(),
            Re::Alt(v) => v.iter().flat_map(|r| r.ends(w, i)).collect(),
            Re::Opt(a) => { let mut s = a.ends(w, i); s.insert(i); s }
            Re::Star(a) => Self::iter(a, w, [i].into(), 0, None),
            Re::Plus(a) => Self::iter(a, w, [i].into(), 1, None),
            Re::Rep(a, m, n) => Self::iter(a, w, [i].into(), *m, *n),
        }
    }
    fn iter(a: &Re, w: &[char], start: BTreeSet<usize>, min: u32, max: Option<u32>) -> BTreeSet<usize> {
        let mut cur = start; let mut res = BTreeSet::new(); let mut k = 0u32;
        let mut seen: BTreeSet<(u32, Vec<usize>)> = BTreeSet::new();
        loop {
            if k >= min { res.extend(cur.iter().cloned()); }
            if let Some(mx) = max { if k >= mx { break; } }
            let nxt: BTreeSet<usize> = cur.iter().flat_map(|&p| a.ends(w, p)).collect();
            if nxt.is_empty() { break; }
            k += 1;
            if k > min + w.len() as u32 + 2 && max.is_none() { if !seen.insert((0, nxt.iter().cloned().collect())) { break; } }
            cur = nxt;
        }
        res
    }
    fn nullable(&self) -> bool { self.ends(&[], 0).contains(&0) }
    fn has_leading_empty_alt(&self) -> bool {
        match self {
            Re::Alt(v) => {
                // D1 shape: a prefix of empty-NFA alternatives followed by a non-empty one
                let k = v.iter().take_while(|r| r.empty_nfa()).count();
                (k > 0 && k < v.len()) || v.iter().any(|r| r.has_leading_empty_alt())
            }
            Re::Cat(a, b) => a.has_leading_empty_alt() || b.has_leading_empty_alt(),
            Re::Star(a) | Re::Plus(a) | Re::Opt(a) | Re::Rep(a, _, _) => a.has_leading_empty_alt(),
            _ => false,
        }
    }
    fn empty_nfa(&self) -> bool {
        match self {
            Re::Eps => true,
            Re::Cat(a, b) => a.empty_nfa() && b.empty_nfa(),
            Re::Alt(v) => v.iter().all(|r| r.empty_nfa()),
            Re::Rep(a, m, Some(n)) => (*m == 0 && *n == 0) || (a.empty_nfa() && m == n),
            _ => false,
        }
    }
    fn is_emptyish(&self) -> bool { matches!(self, Re::Eps) || matches!(self, Re::Rep(_, 0, Some(0))) }
}
const AB: [char; 4] = ['a', 'b', 'é', '\n'];
fn gen(r: &mut StdRng, d: u32) -> Re {
    if d == 0 || r.gen_bool(0.3) {
        if r.gen_bool(0.08) { return Re::Eps; }
        let n = r.gen_range(1..=2); let mut v: Vec<char> = AB.choose_multiple(r, n).cloned().collect(); v.sort(); return Re::Cls(v);
    }
    match r.gen_range(0..8) {
        0 | 1 => Re::Cat(Box::new(gen(r, d - 1)), Box::new(gen(r, d - 1))),
        2 | 3 => Re::Alt((0..r.gen_range(2..=3)).map(|_| gen(r, d - 1)).collect()),
        4 => Re::Star(Box::new(gen(r, d - 1))), 5 => Re::Plus(Box::new(gen(r, d - 1))), 6 => Re::Opt(Box::new(gen(r, d - 1))),
        _ => { let m = r.gen_range(0..=2); let n = if r.gen_bool(0.3) { None } else { Some(m + r.gen_range(0..=2)) }; Re::Rep(Box::new(gen(r, d - 1)), m, n) }
    }
}
struct P { re: Re, tt: usize, la: Option<(bool, Re)> }
fn spec_scan(ps: &[P], w: &[char]) -> Vec<Vec<(usize, usize, usize)>> {
    // returns per step the SET of admissible tokens; follows the first admissible... we compare stepwise below instead
    let _ = (ps, w); vec![]
}
fn best(ps: &[P], w: &[char], i: usize) -> Vec<(usize, usize)> { // (pattern idx, end)
    let mut c: Vec<(usize, usize, usize)> = vec![]; // (ext, p, e)
    for (pi, p) in ps.iter().enumerate() {
        for e in p.re.ends(w, i) { if e <= i { continue; }
            let ext = match &p.la { None => Some(e - i), Some((pos, la)) => { let f: Vec<usize> = la.ends(w, e).into_iter().filter(|&f| f > e).collect(); if *pos { f.iter().max().map(|m| m - i) } else if f.is_empty() { Some(e - i) } else { None } } };
            if let Some(x) = ext { c.push((x, pi, e)); }
        }
    }
    if c.is_empty() { return vec![]; }
    let mx = c.iter().map(|t| t.0).max().unwrap();
    let mp = c.iter().filter(|t| t.0 == mx).map(|t| t.1).min().unwrap();
    c.iter().filter(|t| t.0 == mx && t.1 == mp).map(|t| (t.1, t.2)).collect()
}
fn main() {
    let mode: u32 = std::env::args().nth(1).unwrap().parse().unwrap(); // 0 = no lookahead, no empty alts; 1 = allow empty alts; 2 = lookaheads
    let n: usize = std::env::args().nth(2).unwrap().parse().unwrap();
    let mut r = StdRng::seed_from_u64(42);
    std::panic::set_hook(Box::new(|_| {}));
    let (mut total, mut bad, mut panics, mut shown) = (0, 0, 0, 0);
    while total < n {
        let np = r.gen_range(1..=3);
        let mut ps: Vec<P> = vec![];
        let mut tts: Vec<usize> = (0..10).collect(); tts.shuffle(&mut r);
        for k in 0..np {
            let re = gen(&mut r, 3);
            let la = if mode == 2 && r.gen_bool(0.5) { let mut l = gen(&mut r, 2); let mut tries = 0; while (l.nullable() || l.has_leading_empty_alt()) && tries < 50 { l = gen(&mut r, 2); tries += 1; } if l.nullable() { None } else { Some((r.gen_bool(0.5), l)) } } else { None };
            ps.push(P { re, tt: tts[k], la });
        }
        if mode != 1 && ps.iter().any(|p| p.re.has_leading_empty_alt()) { continue; }
        if mode == 2 && ps.iter().all(|p| p.la.is_none()) { continue; }
        total += 1;
        let pats: Vec<Pattern> = ps.iter().map(|p| { let q = Pattern::new(p.re.s(), p.tt); match &p.la { Some((pos, l)) => q.with_lookahead(Lookahead::new(*pos, l.s())), None => q } }).collect();
        let modes = vec![ScannerMode::new("M", pats, vec![])];
        let sc = match catch_unwind(AssertUnwindSafe(|| ScannerBuilder::new().add_scanner_modes(&modes).build_uncached())) { Ok(Ok(s)) => s, Ok(Err(e)) => { println!("BUILD ERR {:?}: {e}", ps.iter().map(|p| p.re.s()).collect::<Vec<_>>()); bad += 1; continue; } Err(_) => { println!("BUILD PANIC {:?}", ps.iter().map(|p| p.re.s()).collect::<Vec<_>>()); panics += 1; continue; } };
        for _ in 0..6 {
            let len = r.gen_range(0..=7); let w: Vec<char> = (0..len).map(|_| *AB.choose(&mut r).unwrap()).collect();
            let s: String = w.iter().collect();
            let offs: Vec<usize> = s.char_indices().map(|(b, _)| b).chain([s.len()]).collect();
            let got = catch_unwind(AssertUnwindSafe(|| sc.find_iter(&s).map(|m| (m.token_type(), m.start(), m.end())).collect::<Vec<_>>()));
            let got = match got { Ok(g) => g, Err(_) => { panics += 1; if shown < 40 { shown += 1; println!("PANIC pats={:?} input={:?}", ps.iter().map(|p| (p.re.s(), p.la.as_ref().map(|l| (l.0, l.1.s())))).collect::<Vec<_>>(), s); } continue; } };
            // stepwise validation
            let mut i = 0usize; let mut gi = 0usize; let mut ok = true; let mut why = String::new();
            while i <= w.len() {
                if i == w.len() { if gi != got.len() { ok = false; why = format!("extra tokens at end"); } break; }
                let b = best(&ps, &w, i);
                if b.is_empty() { i += 1; continue; }
                if gi >= got.len() { ok = false; why = format!("missing token at char {i}, expected one of {:?}", b); break; }
                let (tt, st, en) = got[gi];
                let hit = b.iter().find(|(p, e)| ps[*p].tt == tt && offs[i] == st && offs[*e] == en);
                match hit { Some((_, e)) => { i = *e; gi += 1; } None => { ok = false; why = format!("at char {i}: got {:?}, admissible {:?}", got[gi], b.iter().map(|(p, e)| (ps[*p].tt, offs[i], offs[*e])).collect::<Vec<_>>()); break; } }
            }
            if !ok { bad += 1; if shown < 40 { shown += 1; println!("DIFF pats={:?} input={:?} got={:?} :: {}", ps.iter().map(|p| (p.re.s(), p.tt, p.la.as_ref().map(|l| (l.0, l.1.s())))).collect::<Vec<_>>(), s, got, why); } }
        }
    }
    println!("mode={mode} configs={total} bad={bad} panics={panics}");
    let _ = spec_scan;
}
