---- MODULE P5 ----
EXTENDS Integers, Sequences, FiniteSets, TLC, Json, IOUtils, SequencesExt
D == JsonDeserialize("veryl0.json")
NP == Len(D.pats)
Atoms == 1..D.natoms

RECURSIVE Expand(_)
Copies(x, n) == [k \in 1..n |-> x]
Expand(re) ==
  CASE re.op \in {"eps", "cls"} -> re
    [] re.op \in {"cat", "alt"} -> [op |-> re.op, xs |-> [k \in DOMAIN re.xs |-> Expand(re.xs[k])]]
    [] re.op \in {"star", "plus", "opt"} -> [op |-> re.op, l |-> Expand(re.l)]
    [] re.op = "rep" ->
         LET e == Expand(re.l) IN
         IF re.max = -1 THEN [op |-> "cat", xs |-> Copies(e, re.min) \o << [op |-> "star", l |-> e] >>]
         ELSE [op |-> "cat", xs |-> Copies(e, re.min) \o Copies([op |-> "opt", l |-> e], re.max - re.min)]


Eps(base) == [null |-> TRUE, first |-> {}, last |-> {}, fol |-> {}, lf |-> {}, n |-> base]
Leaf(base, leaf) == [null |-> FALSE, first |-> {base+1}, last |-> {base+1}, fol |-> {}, lf |-> {<<base+1, leaf>>}, n |-> base+1]
CatC(A, B) == [null |-> A.null /\ B.null,
               first |-> A.first \cup (IF A.null THEN B.first ELSE {}),
               last |-> B.last \cup (IF B.null THEN A.last ELSE {}),
               fol |-> A.fol \cup B.fol \cup { <<p, q>> : p \in A.last, q \in B.first },
               lf |-> A.lf \cup B.lf, n |-> B.n]
AltC(A, B) == [null |-> A.null \/ B.null, first |-> A.first \cup B.first, last |-> A.last \cup B.last,
               fol |-> A.fol \cup B.fol, lf |-> A.lf \cup B.lf, n |-> B.n]
LoopC(A, nl) == [A EXCEPT !.null = nl, !.fol = A.fol \cup { <<p, q>> : p \in A.last, q \in A.first }]
RECURSIVE G(_, _), GSeq(_, _, _, _)
G(re, base) ==
  CASE re.op = "eps" -> Eps(base)
    [] re.op = "cls" -> Leaf(base, re.leaf)
    [] re.op \in {"cat", "alt"} -> IF Len(re.xs) = 0 THEN Eps(base) ELSE GSeq(re.xs, 1, base, re.op)
    [] re.op = "star" -> LoopC(G(re.l, base), TRUE)
    [] re.op = "plus" -> LET A == G(re.l, base) IN LoopC(A, A.null)
    [] re.op = "opt" -> [G(re.l, base) EXCEPT !.null = TRUE]
GSeq(xs, k, base, op) ==
  IF k = Len(xs) THEN G(xs[k], base)
  ELSE LET A == G(xs[k], base)
           B == GSeq(xs, k+1, A.n, op)
       IN IF op = "cat" THEN CatC(A, B) ELSE AltC(A, B)

RECURSIVE GP(_, _)
\* per pattern automata threaded through a common numbering; result: sequence of records
GP(i, base) == IF i > NP THEN <<>> ELSE LET A == G(Expand(D.pats[i].re), base) IN <<A>> \o GP(i+1, A.n)
Gs == TLCEval(GP(1, 0))
N == Gs[NP].n
Fol == TLCEval(UNION { Gs[i].fol : i \in 1..NP })
FollowI == TLCEval([p \in 1..N |-> { r[2] : r \in { r \in Fol : r[1] = p } }])
FirstI == TLCEval(UNION { Gs[i].first : i \in 1..NP })
LastI == TLCEval(UNION { Gs[i].last : i \in 1..NP })
AtomSet == TLCEval([l \in DOMAIN D.leafAtoms |-> { D.leafAtoms[l][k] : k \in DOMAIN D.leafAtoms[l] }])
Lf == TLCEval(UNION { Gs[i].lf : i \in 1..NP })
PosOfAtom == TLCEval([a \in Atoms |-> { r[1] : r \in { r \in Lf : a \in AtomSet[r[2]] } }])
TT == TLCEval([p \in 1..N |-> D.pats[CHOOSE i \in 1..NP : p \in { r[1] : r \in Gs[i].lf }].tt])
ASSUME PrintT(<<"positions", N, "first", Cardinality(FirstI), "fol", Cardinality(Fol)>>)

VARIABLES S, start
Init == S = {} /\ start = TRUE
Next == LET F == IF start THEN FirstI ELSE UNION { FollowI[p] : p \in S } IN
        \E a \in Atoms :
          /\ S' = F \cap PosOfAtom[a]
          /\ S' # {}
          /\ start' = FALSE
Acc(T) == { TT[q] : q \in T \cap LastI }
Inv == start => Acc(S) = {}
====
