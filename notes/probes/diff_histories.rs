use rand::prelude::*;
use scnr::*;
use std::collections::BTreeSet;
use std::panic::{catch_unwind, AssertUnwindSafe};

#[derive(Clone, Debug)]
enum Re { Eps, Cls(Vec<char>), Cat(Box<Re>, Box<Re>), Alt(Vec<Re>), Star(Box<Re>), Plus(Box<Re>), Opt(Box<Re>), Rep(Box<Re>, u32, Option<u32>) }
impl Re {
    fn s(&self) -> String {
        match self {
            Re::Eps => "()".into(),
            Re::Cls(v) => if v.len() == 1 { v[0].to_string().replace('\n', "\\n") } else { format!("[{}]", v.iter().map(|c| c.to_string().replace('\n', "\\n")).collect::<String>()) },
            Re::Cat(a, b) => format!("{}{}", a.g(), b.g()),
            Re::Alt(v) => v.iter().map(|r| match r { Re::Eps => String::new(), _ => r.g() }).collect::<Vec<_>>().join("|"),
            Re::Star(a) => format!("{}*", a.a()), Re::Plus(a) => format!("{}+", a.a()), Re::Opt(a) => format!("{}?", a.a()),
            Re::Rep(a, m, Some(n)) => if m == n { format!("{}{{{}}}", a.a(), m) } else { format!("{}{{{},{}}}", a.a(), m, n) },
            Re::Rep(a, m, None) => format!("{}{{{},}}", a.a(), m),
        }
    }
    fn g(&self) -> String { match self { Re::Alt(_) => format!("({})", self.s()), _ => self.s() } }
    fn a(&self) -> String { match self { Re::Cls(_) => self.s(), _ => format!("({})", self.s()) } }
    fn ends(&self, w: &[char], i: usize) -> BTreeSet<usize> {
        match self {
            Re::Eps => [i].into(),
            Re::Cls(v) => if i < w.len() && v.contains(&w[i]) { [i + 1].into() } else { BTreeSet::new() },
            Re::Cat(a, b) => a.ends(w, i).into_iter().flat_map(|k| b.ends(w, k)).collect(),
            Re::Alt(v) => v.iter().flat_map(|r| r.ends(w, i)).collect(),
            Re::Opt(a) => { let mut s = a.ends(w, i); s.insert(i); s }
            Re::Star(a) => Self::iter(a, w, [i].into(), 0, None),
            Re::Plus(a) => Self::iter(a, w, [i].into(), 1, None),
            Re::Rep(a, m, n) => Self::iter(a, w, [i].into(), *m, *n),
        }
    }
    fn iter(a: &Re, w: &[char], start: BTreeSet<usize>, min: u32, max: Option<u32>) -> BTreeSet<usize> {
        let mut cur = start; let mut res = BTreeSet::new(); let mut k = 0u32;
        let mut seen: BTreeSet<(u32, Vec<usize>)> = BTreeSet::new();
        loop {
            if k >= min { res.extend(cur.iter().cloned()); }
            if let Some(mx) = max { if k >= mx { break; } }
            let nxt: BTreeSet<usize> = cur.iter().flat_map(|&p| a.ends(w, p)).collect();
            if nxt.is_empty() { break; }
            k += 1;
            if k > min + w.len() as u32 + 2 && max.is_none() { if !seen.insert((0, nxt.iter().cloned().collect())) { break; } }
            cur = nxt;
        }
        res
    }
    fn nullable(&self) -> bool { self.ends(&[], 0).contains(&0) }
    fn has_leading_empty_alt(&self) -> bool {
        match self {
            Re::Alt(v) => {
                // D1 shape: a prefix of empty-NFA alternatives followed by a non-empty one
                let k = v.iter().take_while(|r| r.empty_nfa()).count();
                (k > 0 && k < v.len()) || v.iter().any(|r| r.has_leading_empty_alt())
            }
            Re::Cat(a, b) => a.has_leading_empty_alt() || b.has_leading_empty_alt(),
            Re::Star(a) | Re::Plus(a) | Re::Opt(a) | Re::Rep(a, _, _) => a.has_leading_empty_alt(),
            _ => false,
        }
    }
    fn empty_nfa(&self) -> bool {
        match self {
            Re::Eps => true,
            Re::Cat(a, b) => a.empty_nfa() && b.empty_nfa(),
            Re::Alt(v) => v.iter().all(|r| r.empty_nfa()),
            Re::Rep(a, m, Some(n)) => (*m == 0 && *n == 0) || (a.empty_nfa() && m == n),
            _ => false,
        }
    }
    fn is_emptyish(&self) -> bool { matches!(self, Re::Eps) || matches!(self, Re::Rep(_, 0, Some(0))) }
}
const AB: [char; 4] = ['a', 'b', 'é', '\n'];
fn gen(r: &mut StdRng, d: u32) -> Re {
    if d == 0 || r.gen_bool(0.3) {
        if r.gen_bool(0.08) { return Re::Eps; }
        let n = r.gen_range(1..=2); let mut v: Vec<char> = AB.choose_multiple(r, n).cloned().collect(); v.sort(); return Re::Cls(v);
    }
    match r.gen_range(0..8) {
        0 | 1 => Re::Cat(Box::new(gen(r, d - 1)), Box::new(gen(r, d - 1))),
        2 | 3 => Re::Alt((0..r.gen_range(2..=3)).map(|_| gen(r, d - 1)).collect()),
        4 => Re::Star(Box::new(gen(r, d - 1))), 5 => Re::Plus(Box::new(gen(r, d - 1))), 6 => Re::Opt(Box::new(gen(r, d - 1))),
        _ => { let m = r.gen_range(0..=2); let n = if r.gen_bool(0.3) { None } else { Some(m + r.gen_range(0..=2)) }; Re::Rep(Box::new(gen(r, d - 1)), m, n) }
    }
}

struct P { re: Re, tt: usize, la: Option<(bool, Re)> }
struct M { ps: Vec<P>, trans: Vec<(usize, usize)> }
fn best(ps: &[P], w: &[char], i: usize) -> Vec<(usize, usize)> {
    let mut c: Vec<(usize, usize, usize)> = vec![];
    for (pi, p) in ps.iter().enumerate() {
        for e in p.re.ends(w, i) { if e <= i { continue; }
            let ext = match &p.la { None => Some(e - i), Some((pos, la)) => { let f: Vec<usize> = la.ends(w, e).into_iter().filter(|&f| f > e).collect(); if *pos { f.iter().max().map(|m| m - i) } else if f.is_empty() { Some(e - i) } else { None } } };
            if let Some(x) = ext { c.push((x, pi, e)); }
        }
    }
    if c.is_empty() { return vec![]; }
    let mx = c.iter().map(|t| t.0).max().unwrap();
    let mp = c.iter().filter(|t| t.0 == mx).map(|t| t.1).min().unwrap();
    c.iter().filter(|t| t.0 == mx && t.1 == mp).map(|t| (t.1, t.2)).collect()
}
fn trans(m: &M, tt: usize) -> Option<usize> { m.trans.iter().find(|t| t.0 == tt).map(|t| t.1) }
fn true_pos(s: &str, o: usize) -> (Vec<(usize, usize)>, ) {
    let b = s.as_bytes(); let mut line = 1; let mut ls = 0; let mut prev_ls = 0;
    for i in 0..o.min(b.len()) { if b[i] == b'\n' { line += 1; prev_ls = ls; ls = i + 1; } }
    let mut v = vec![(line, o - ls + 1)];
    if o > 0 && o <= b.len() && b[o - 1] == b'\n' { v.push((line - 1, o - prev_ls + 1)); }
    (v,)
}
fn main() {
    let n: usize = std::env::args().nth(1).unwrap().parse().unwrap();
    let seed: u64 = std::env::args().nth(2).map(|s| s.parse().unwrap()).unwrap_or(7);
    let mut r = StdRng::seed_from_u64(seed);
    std::panic::set_hook(Box::new(|_| {}));
    let (mut total, mut bad, mut shown, mut ops_total) = (0, 0, 0, 0usize);
    'cfg: while total < n {
        let nm = r.gen_range(1..=3);
        let mut ms: Vec<M> = vec![];
        for _ in 0..nm {
            let np = r.gen_range(1..=3);
            let mut tts: Vec<usize> = (0..5).collect(); tts.shuffle(&mut r);
            let mut ps = vec![];
            for k in 0..np {
                let re = gen(&mut r, 2);
                let la = if r.gen_bool(0.25) { let mut l = gen(&mut r, 1); let mut t = 0; while l.nullable() && t < 50 { l = gen(&mut r, 1); t += 1; } if l.nullable() { None } else { Some((r.gen_bool(0.5), l)) } } else { None };
                ps.push(P { re, tt: tts[k], la });
            }
            let mut tr: Vec<(usize, usize)> = vec![]; for p in ps.iter() { if r.gen_bool(0.5) { tr.push((p.tt, r.gen_range(0..nm))); } }
            tr.sort();
            ms.push(M { ps, trans: tr });
        }
        total += 1;
        let modes: Vec<ScannerMode> = ms.iter().enumerate().map(|(i, m)| ScannerMode::new(&format!("M{i}"), m.ps.iter().map(|p| { let q = Pattern::new(p.re.s(), p.tt); match &p.la { Some((pos, l)) => q.with_lookahead(Lookahead::new(*pos, l.s())), None => q } }).collect::<Vec<_>>(), m.trans.clone())).collect();
        let sc = match catch_unwind(AssertUnwindSafe(|| ScannerBuilder::new().add_scanner_modes(&modes).build())) { Ok(Ok(s)) => s, _ => { println!("BUILD FAIL"); bad += 1; continue; } };
        let desc = || format!("{:?}", ms.iter().map(|m| (m.ps.iter().map(|p| (p.re.s(), p.tt, p.la.as_ref().map(|l| (l.0, l.1.s())))).collect::<Vec<_>>(), m.trans.clone())).collect::<Vec<_>>());
        for _ in 0..4 {
            let len = r.gen_range(0..=9); let w: Vec<char> = (0..len).map(|_| *AB.choose(&mut r).unwrap()).collect();
            let s: String = w.iter().collect();
            let offs: Vec<usize> = s.char_indices().map(|(b, _)| b).chain([s.len()]).collect();
            let cidx = |b: usize| offs.iter().position(|&x| x == b);
            let mut it = sc.find_iter(&s);
            let (mut cur, mut mode, mut hw, mut pos_valid) = (0usize, 0usize, 0usize, true);
            let mut last_peek: Vec<usize> = vec![]; // ends (bytes)
            let mut log: Vec<String> = vec![];
            let nops = r.gen_range(3..=14);
            for _ in 0..nops {
                ops_total += 1;
                let op = r.gen_range(0..10);
                let mut fail: Option<String> = None;
                let res = catch_unwind(AssertUnwindSafe(|| {
                    let mut fail: Option<String> = None;
                    match op {
                        0..=3 => { // next (+positions)
                            let got = it.next();
                            let mut i = cur; let mut exp: Vec<(usize, usize, usize)> = vec![];
                            while i < w.len() { let b = best(&ms[mode].ps, &w, i); if !b.is_empty() { exp = b.iter().map(|(p, e)| (ms[mode].ps[*p].tt, offs[i], offs[*e])).collect(); break; } i += 1; }
                            log.push(format!("next->{:?}", got.map(|m| (m.token_type(), m.start(), m.end()))));
                            match got {
                                None => { if !exp.is_empty() { fail = Some(format!("next None, expected {:?}", exp)); } cur = w.len(); hw = w.len(); }
                                Some(m) => { let g = (m.token_type(), m.start(), m.end()); if !exp.contains(&g) { fail = Some(format!("next {:?}, admissible {:?}", g, exp)); } else {
                                    cur = cidx(m.end()).unwrap(); hw = hw.max(cur); if let Some(t) = trans(&ms[mode], g.0) { mode = t; }
                                    if pos_valid { for o in [m.start(), m.end()] { let p = it.position(o); let tp = true_pos(&s, o).0; if !tp.contains(&(p.line, p.column)) { fail = Some(format!("position({o}) = {:?}, admissible {:?}", (p.line, p.column), tp)); } } }
                                } }
                            }
                            last_peek.clear();
                        }
                        4 | 5 => { // peek
                            let k = r.gen_range(0..=3);
                            let got = it.peek_n(k);
                            let (mut i, mut toks, mut sw): (usize, Vec<Vec<(usize, usize, usize)>>, Option<usize>) = (cur, vec![], None);
                            let mut chosen: Vec<(usize, usize, usize)> = vec![];
                            let (gv, gkind, gmode): (Vec<(usize, usize, usize)>, &str, Option<usize>) = match &got { PeekResult::Matches(v) => (v.iter().map(|m| (m.token_type(), m.start(), m.end())).collect(), "M", None), PeekResult::MatchesReachedEnd(v) => (v.iter().map(|m| (m.token_type(), m.start(), m.end())).collect(), "E", None), PeekResult::MatchesReachedModeSwitch((v, t)) => (v.iter().map(|m| (m.token_type(), m.start(), m.end())).collect(), "S", Some(*t)), PeekResult::NotFound => (vec![], "N", None) };
                            log.push(format!("peek({k})->{gkind}{:?}{:?}", gv, gmode));
                            let mut okk = true;
                            while toks.len() < k && i < w.len() {
                                let b = best(&ms[mode].ps, &w, i);
                                if b.is_empty() { i += 1; continue; }
                                let adm: Vec<(usize, usize, usize)> = b.iter().map(|(p, e)| (ms[mode].ps[*p].tt, offs[i], offs[*e])).collect();
                                // follow the implementation's choice if admissible
                                let idx = toks.len();
                                if idx < gv.len() && adm.contains(&gv[idx]) { chosen.push(gv[idx]); i = cidx(gv[idx].2).unwrap(); } else { okk = false; toks.push(adm.clone()); break; }
                                toks.push(adm);
                                if let Some(t) = trans(&ms[mode], chosen[idx].0) { sw = Some(t); break; }
                            }
                            if !okk || chosen.len() != gv.len() { fail = Some(format!("peek({k}) tokens {:?}, spec prefix {:?} admissible-next {:?}", gv, chosen, toks.last())); }
                            else {
                                let kinds: Vec<&str> = if let Some(_) = sw { if chosen.len() == k { vec!["S", "M"] } else { vec!["S"] } } else if chosen.len() == k { if k == 0 { vec!["M", "N"] } else { vec!["M"] } } else if chosen.is_empty() { vec!["N", "E"] } else { vec!["E"] };
                                if !kinds.contains(&gkind) { fail = Some(format!("peek({k}) kind {gkind}, admissible {:?}", kinds)); }
                                if gkind == "S" && gmode != sw { fail = Some(format!("peek target {:?} expected {:?}", gmode, sw)); }
                            }
                            last_peek = gv.iter().map(|t| t.2).collect();
                        }
                        6 => { // advance_to
                            if let Some(&p) = last_peek.choose(&mut r) { let _ = it.advance_to(p); log.push(format!("advance_to({p})")); cur = cidx(p).unwrap(); hw = hw.max(cur); }
                            last_peek.clear();
                        }
                        7 => { // set_offset
                            let o = if r.gen_bool(0.1) { s.len() + 2 } else { *offs.choose(&mut r).unwrap() };
                            it.set_offset(o); log.push(format!("set_offset({o})"));
                            let c = cidx(o.min(s.len())).unwrap(); if c > hw { pos_valid = false; } cur = c; last_peek.clear();
                        }
                        8 => { let m = r.gen_range(0..ms.len()); it.set_mode(m); mode = m; log.push(format!("set_mode({m})")); last_peek.clear(); }
                        _ => { // position query
                            if pos_valid { let o = offs[r.gen_range(0..=hw)]; let p = it.position(o); log.push(format!("position({o})->{:?}", (p.line, p.column))); let tp = true_pos(&s, o).0; if !tp.contains(&(p.line, p.column)) { fail = Some(format!("position({o}) = {:?}, admissible {:?}", (p.line, p.column), tp)); } }
                        }
                    }
                    if fail.is_none() && it.current_mode() != mode { fail = Some(format!("current_mode {} expected {}", it.current_mode(), mode)); }
                    fail
                }));
                match res { Ok(f) => fail = f, Err(_) => fail = Some("PANIC".into()) }
                if let Some(f) = fail { bad += 1; if shown < 25 { shown += 1; println!("DIFF cfg={} input={:?} log={:?} :: {}", desc(), s, log, f); } continue 'cfg; }
            }
        }
    }
    println!("configs={total} ops={ops_total} bad={bad}");
}
