---- MODULE P6 ----
EXTENDS Integers, Sequences, FiniteSets, TLC
N == 300
RECURSIVE Sum(_)
Sum(k) == IF k = 0 THEN 0 ELSE k + Sum(k-1)
Slow(i) == Sum(2000) + i
T == [i \in 1..N |-> Slow(i)] @@ <<>>
VARIABLES x, c
Init == x = 1 /\ c = 0
Next == c < 3000 /\ c' = c + 1 /\ x' = (T[(x % N) + 1] % N) + 1
====
