---- MODULE P1 ----
EXTENDS Naturals, Sequences, FiniteSets, TLC, Json, IOUtils

Recs == ndJsonDeserialize(IOEnv.TRACE)

RECURSIVE Ends(_, _, _)
RECURSIVE StarFix(_, _, _, _)
StarFix(re, w, frontier, acc) ==
  IF frontier = {} THEN acc
  ELSE LET nxt == UNION { Ends(re, w, k) : k \in frontier } \ acc
       IN StarFix(re, w, nxt, acc \cup nxt)
Ends(re, w, i) ==
  CASE re.op = "eps" -> {i}
    [] re.op = "cls" -> IF i <= Len(w) /\ (\E k \in DOMAIN re.set : re.set[k] = w[i]) THEN {i+1} ELSE {}
    [] re.op = "cat" -> UNION { Ends(re.r, w, k) : k \in Ends(re.l, w, i) }
    [] re.op = "alt" -> Ends(re.l, w, i) \cup Ends(re.r, w, i)
    [] re.op = "star" -> StarFix(re.l, w, {i}, {i})
    [] re.op = "plus" -> UNION { StarFix(re.l, w, {k}, {k}) : k \in Ends(re.l, w, i) }
    [] re.op = "opt" -> {i} \cup Ends(re.l, w, i)

Max(S) == CHOOSE x \in S : \A y \in S : y <= x
\* longest match, earliest pattern; result <<idx, end>> or <<0,0>>
Cands(pats, w, i) == { <<p, e>> : p \in 1..Len(pats), e \in (1..Len(w)+1) } 
NextTok(pats, w, i) ==
  LET c == { pe \in { <<p, e>> : p \in 1..Len(pats), e \in (i+1)..(Len(w)+1) } : pe[2] \in Ends(pats[pe[1]], w, i) }
  IN IF c = {} THEN <<0, 0>>
     ELSE LET m == Max({ pe[2] : pe \in c })
              p == CHOOSE p \in 1..Len(pats) : <<p, m>> \in c /\ \A q \in 1..Len(pats) : <<q, m>> \in c => p <= q
          IN <<p, m>>

RECURSIVE Scan(_, _, _)
Scan(pats, w, i) ==
  IF i > Len(w) THEN <<>>
  ELSE LET t == NextTok(pats, w, i)
       IN IF t[1] = 0 THEN Scan(pats, w, i+1)
          ELSE <<<<t[1], i, t[2]>>>> \o Scan(pats, w, t[2])

VARIABLE l
Init == l = 1
Next == l <= Len(Recs) /\ LET r == Recs[l] IN
          /\ Scan(r.pats, r.w, 1) = r.toks
          /\ l' = l + 1
Spec == Init /\ [][Next]_l
Accepted == IF TLCGet("stats").diameter - 1 = Len(Recs) THEN TRUE
            ELSE PrintT(<<"REJECT at", TLCGet("stats").diameter>>) /\ FALSE
====
