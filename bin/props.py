"""Per-property checks. Each check is a list of legs; a leg binds one part of the TLA+
specification to the code (G: generated behaviours replayed, T: recorded traces validated,
P: product exploration on dumps, M: model checking of the operational layer)."""
import json, os, subprocess, time


def gen_summary(reps):
    return dict(
        behaviours=sum(r["behaviours"] for r in reps),
        calls=sum(r["calls"] for r in reps),
        states=sum(r["tlc_distinct"] for r in reps),
        transitions=sum(r["tlc_generated"] for r in reps),
        with_token=sum(r["behaviours_with_token"] for r in reps),
        cfgs_with_token=sum(r["configurations_with_token"] for r in reps),
        violations=sum(r["violations"] for r in reps),
        files=[f for r in reps for f in r["violation_files"]],
    )


def finish(K, prop, tier, seed, t0, level, reps, extra_cov, assumptions, rule):
    s = gen_summary([r for r in reps if r.get("kind") == "gen"])
    files = [f for r in reps for f in r.get("violation_files", [])]
    total = sum(r.get("violations", 0) for r in reps)
    unknown = K.report_violations(prop, files, total)
    samples = []
    for r in reps:
        samples.extend(r.get("samples", [])[:2])
    cov = dict(
        states=max(1, s["states"] + sum(r.get("tlc_distinct", 0) for r in reps if r.get("kind") != "gen")),
        transitions=max(1, s["transitions"] + sum(r.get("tlc_generated", 0) for r in reps if r.get("kind") != "gen")),
        traces_validated_against_impl=s["behaviours"] + sum(r.get("traces", 0) for r in reps),
        evaluations=s["calls"] + sum(r.get("events", 0) for r in reps),
        distinct_nontrivial=s["cfgs_with_token"] + sum(r.get("nontrivial", 0) for r in reps),
        rule=rule,
        samples=samples[:6] or [{"note": "no sample"}],
        exhaustive=all(r.get("world", {}).get("MOD", "1") == "1" for r in reps if r.get("kind") == "gen"),
        legs=[{k: v for k, v in r.items() if k not in ("samples", "tlc_tail", "violation_files", "dir")} for r in reps],
    )
    cov.update(extra_cov or {})
    K.write_evidence(prop, tier, seed, level, cov, assumptions, time.time() - t0, total)
    return 1 if unknown else 0


ASSUME_COMMON = [
    "TLC, the CommunityModules Json/IOUtils code and the regex-syntax parser are trusted",
    "the harness' concretisation of atoms (a, U+00E9, U+1F600, newline) and its byte-offset mapping",
    "bounded: pattern sets, input length and history depth as stated in coverage.legs[].world",
]


def check_C01(K, prop, tier, seed, t0):
    q = tier == "quick"
    n = 3 if q else 5
    legs = [
        ("pairs", dict(CFGS="U_C01_pairs", MAXLEN=n)),
        ("singles", dict(CFGS="U_C01_singles", MAXLEN=n, MOD=2 if q else 1, SEED=seed)),
        ("triples", dict(CFGS="U_C01_triples", MAXLEN=n)),
        ("simple", dict(CFGS="U_C01_simple", MAXLEN=2 if q else 3)),
    ]
    fns = [(lambda nm=nm, p=p: K.run_gen_leg(prop, nm, p, workers=4, threads=4)) for nm, p in legs]
    reps = K.run_legs(fns, parallel=4)
    return finish(K, prop, tier, seed, t0, "model_checking", reps, None, ASSUME_COMMON,
                  "TLC enumerates every behaviour of ScannerApi (find_iter, next until None) for every pattern set of "
                  "the universe and every input up to MaxLen; each is replayed through the public API. "
                  "distinct_nontrivial = configurations that produced at least one token")


def trace_only(profile, n_quick, n_thorough, rule):
    def chk(K, prop, tier, seed, t0):
        n = n_quick if tier == "quick" else n_thorough
        reps = [K.run_trace_leg(prop, "T-" + profile, profile, n, seed, shards=12)]
        return finish(K, prop, tier, seed, t0, "model_checking", reps, None, ASSUME_COMMON, rule)
    return chk


CHECKS = {
    "C01": check_C01,
    "C04": trace_only("c04", 300, 5000, "random real-syntax modes with lookaheads, histories with set_offset"),
    "C05": trace_only("c05", 300, 5000, "random real-syntax modes with two or more patterns and lookaheads"),
    "C06": trace_only("c06", 300, 5000, "random mode graphs"),
    "C07": trace_only("c07", 300, 5000, "hostile: nullable patterns"),
    "C09": trace_only("c09", 300, 5000, "positions"),
    "C10": trace_only("c10", 300, 5000, "offsets"),
    "C11": trace_only("c11", 300, 5000, "peek"),
    "C12": trace_only("c12", 300, 5000, "isolation"),
}


def replay(K, prop, path):
    p = subprocess.run([K.HARNESS, "replay1", path], text=True, stdout=subprocess.PIPE)
    print(p.stdout, end="")
    if p.returncode == 1:
        print(f"VIOLATION property={prop} replay={path}")
    return p.returncode
