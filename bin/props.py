"""Per-property checks. Each check is a list of legs; a leg binds one part of the TLA+
specification to the code (G: generated behaviours replayed, T: recorded traces validated,
P: product exploration on dumps, M: model checking of the operational layer)."""
import json, os, subprocess, time


def gen_summary(reps):
    return dict(
        behaviours=sum(r["behaviours"] for r in reps),
        calls=sum(r["calls"] for r in reps),
        states=sum(r["tlc_distinct"] for r in reps),
        transitions=sum(r["tlc_generated"] for r in reps),
        with_token=sum(r["behaviours_with_token"] for r in reps),
        cfgs_with_token=sum(r["configurations_with_token"] for r in reps),
        violations=sum(r["violations"] for r in reps),
        files=[f for r in reps for f in r["violation_files"]],
    )


def finish(K, prop, tier, seed, t0, level, reps, extra_cov, assumptions, rule):
    s = gen_summary([r for r in reps if r.get("kind") == "gen"])
    files = [f for r in reps for f in r.get("violation_files", [])]
    total = sum(r.get("violations", 0) for r in reps)
    unknown = K.report_violations(prop, files, total)
    samples = []
    for r in reps:
        samples.extend(r.get("samples", [])[:2])
    cov = dict(
        states=max(1, s["states"] + sum(r.get("tlc_distinct", 0) for r in reps if r.get("kind") != "gen")),
        transitions=max(1, s["transitions"] + sum(r.get("tlc_generated", 0) for r in reps if r.get("kind") != "gen")),
        traces_validated_against_impl=s["behaviours"] + sum(r.get("traces", 0) for r in reps),
        evaluations=s["calls"] + sum(r.get("events", 0) for r in reps),
        distinct_nontrivial=s["cfgs_with_token"] + sum(r.get("nontrivial", 0) for r in reps),
        rule=("states/transitions: distinct/generated states summed over all TLC runs of this check (behaviour generation, trace validation, "
              "layer-B models). traces_validated_against_impl: TLC-generated behaviours replayed through the public API plus recorded executions "
              "validated by TLC. evaluations: public calls executed and compared. distinct_nontrivial: generated configurations that produced at "
              "least one token plus recorded traces accepted (each recorded trace has its own random configuration). Legs: coverage.legs[] "
              "(kind gen = spec->code, trace = code->spec, model = layer B vs layer A, proof = TLAPS theorems about the specification, unbounded). " + rule),
        samples=samples[:6] or [{"note": "no sample"}],
        exhaustive=all(r.get("world", {}).get("MOD", "1") == "1" for r in reps if r.get("kind") == "gen"),
        legs=[{k: v for k, v in r.items() if k not in ("samples", "tlc_tail", "violation_files", "dir")} for r in reps],
    )
    cov.update(extra_cov or {})
    K.write_evidence(prop, tier, seed, level, cov, assumptions, time.time() - t0, total)
    return 1 if unknown else 0


ASSUME_COMMON = [
    "TLC, the CommunityModules Json/IOUtils code and the regex-syntax parser are trusted",
    "the harness' concretisation of atoms (a, U+00E9, U+1F600, newline) and its byte-offset mapping",
    "bounded: pattern sets, input length and history depth as stated in coverage.legs[].world",
]


def check_C01(K, prop, tier, seed, t0):
    q = tier == "quick"
    n = 3 if q else 5
    legs = [
        ("pairs", dict(CFGS="U_C01_pairs", MAXLEN=n)),
        ("singles", dict(CFGS="U_C01_singles", MAXLEN=n, MOD=2 if q else 1, SEED=seed)),
        ("triples", dict(CFGS="U_C01_triples", MAXLEN=n)),
        ("simple", dict(CFGS="U_C01_simple", MAXLEN=2 if q else 3)),
        ("simple-repeated", dict(CFGS="U_C01_simple3", MAXLEN=3 if q else 4)),
    ]
    if not q:
        legs += [("quads", dict(CFGS="U_C01_quads", MAXLEN=4, MOD=2, SEED=seed)),
                 ("depth3", dict(CFGS="U_C01_depth3", MAXLEN=4, MOD=3, SEED=seed))]
    fns = [(lambda nm=nm, p=p: K.run_gen_leg(prop, nm, p, workers=4, threads=4)) for nm, p in legs]
    fns.append(lambda: K.run_trace_leg(prop, "T-c01", "c01", 300 if q else 20000, seed, shards=6))
    fns.append(lambda: K.run_trace_leg(prop, "T-corpus", "corpus", 4000 if q else 80000, seed, shards=4))
    # unbounded, specification level: the admissible token is a longest candidate, the first listed among those (TLAPS)
    fns.append(lambda: K.run_tlaps_leg(prop, "P-TokProofs"))
    reps = K.run_legs(fns, parallel=4)
    return finish(K, prop, tier, seed, t0, "model_checking", reps, None, ASSUME_COMMON,
                  "T: random real-syntax pattern sets (1-6 patterns) on random inputs of 10-120 characters, and the repository's own "
                  "configurations (parol, veryl, string, lookahead fixtures) on slices of the repository's own inputs, validated by TLC. "
                  "G: TLC enumerates every behaviour of ScannerApi (find_iter, next until None) for every pattern set of "
                  "the universe and every input up to MaxLen; each is replayed through the public API. "
                  "distinct_nontrivial = configurations that produced at least one token")


def equiv_check(kinds, what):
    """C02 (kinds mode/la) and C03 (kind min): dump the automata the code compiles for generated,
    random and corpus programs and let TLC explore the product with the specification's own
    automaton (C02) or with the automaton before minimisation (C03)."""
    def chk(K, prop, tier, seed, t0):
        q = tier == "quick"
        mfns = [(lambda nm=nm, mod=mod, cfg=cfg, params=params, neg=neg: K.run_model_leg(prop, nm, mod, cfg, params, expect_violation=neg, workers=4))
                for (nm, mod, cfg, params, neg) in MODEL_LEGS.get(prop, lambda q: [])(q)]
        mreps = K.run_legs(mfns, parallel=3)
        tabs = [K.emit_tables(prop, "tab-pairs", dict(CFGS="U_C01_pairs", HI=1200 if q else "Len(Cfgs)")),
                K.emit_tables(prop, "tab-singles", dict(CFGS="U_C01_singles", HI=1500 if q else "Len(Cfgs)")),
                K.emit_tables(prop, "tab-la", dict(CFGS="U_C04", SYMS="Syms_C04", HI=600 if q else 6000))]
        n = 150 if q else 3000
        sources = ["tables:" + t for t in tabs] + [f"random:c01:{n}:{seed}", f"random:c04:{n}:{seed}",
                                                     f"random:c06:{n}:{seed}", "classpairs", "sharedtt", "congruent", f"tries:{300 if q else 5000}:{seed}", "corpus"]
        if "min" in kinds:
            # long chains (many refinement rounds): minimiser input/output only - their position automaton is of no use to C02
            sources.append("chains")
        out, info = K.harness_dump(prop, "dump", sources)
        cases_path = os.path.join(out, "cases.json")
        with open(cases_path) as f:
            cases = json.load(f)
        with open(os.path.join(out, "problems.json")) as f:
            problems = json.load(f)
        mine = [c for c in cases if c["kind"] in kinds]
        sel = os.path.join(out, "selected.json")
        with open(sel, "w") as f:
            json.dump(mine, f)
        dist, gen, diffs, statics = K.run_equiv(prop, "equiv", sel, workers=12)
        if "mode" in kinds:
            small = [c for c in cases if c["kind"] == "mode" and len(c["pats"]) <= 10 and c["impl"]["n"] <= 60][:600 if q else 6000]
            pth = os.path.join(out, "pipeline_cases.json")
            with open(pth, "w") as f:
                json.dump(small, f)
            mreps.append(K.run_pipeline_drift(prop, "D-Pipeline", pth))
        K.log(f"[equiv] {prop}: {info['programs']} programs, {len(mine)} cases, {dist} product states, "
              f"{len(diffs)} differences, {len(statics)} static problems, {len(problems)} dump problems")
        # one violation per case
        viol_files = []
        vdir = os.path.join(out, "viol")
        os.makedirs(vdir, exist_ok=True)
        seen = set()
        def emit(case, extra):
            if case in seen:
                return
            seen.add(case)
            c = mine[case - 1]
            v = dict(kind="equiv", case_kind=c["kind"], origin=c["origin"], mode=c["mode"], patterns=c["desc"],
                     configurations=[c["desc"]], inputs=[extra.get("word_text", "")], calls_specified=[], **extra)
            path = os.path.join(vdir, f"v{len(viol_files)}.json")
            with open(path, "w") as f:
                json.dump(v, f, ensure_ascii=False, indent=1)
            viol_files.append(path)
        for dd in sorted(diffs, key=lambda x: len(x["word"])):
            c = mine[dd["case"] - 1]
            text = "".join(chr(c["rep"][a - 1]) for a in dd["word"])
            emit(dd["case"], dict(word_atoms=dd["word"], word_text=text,
                                  accepted_by_specification_side=dd["accL"], accepted_by_compiled_automaton=dd["accR"],
                                  difference="after reading this string the two automata accept different sets of token types"
                                             if dd["word"] else "the empty string is accepted"))
        for st in statics:
            emit(st["case"], dict(difference="static problem: unregistered class id, foreign token type, or more states after minimisation"))
        if "mode" in kinds:
            for k, pb in enumerate(problems):
                path = os.path.join(vdir, f"p{k}.json")
                with open(path, "w") as f:
                    json.dump(dict(kind="equiv", configurations=[pb["modes"]], inputs=[], calls_specified=[],
                                   difference=pb["problem"], origin=pb["origin"]), f, ensure_ascii=False, indent=1)
                viol_files.append(path)
        unknown = K.report_violations(prop, viol_files, len(viol_files))
        samples = [{"kind": c["kind"], "origin": c["origin"], "patterns": c["desc"][:4], "states": c["impl"]["n"], "atoms": c["natoms"]}
                   for c in (mine[:2] + mine[-2:])]
        cov = dict(programs=len(mine), disagreements_checked=len(diffs) + len(statics), samples=samples,
                   states=dist, transitions=gen, evaluations=len(mine),
                   distinct_nontrivial=sum(1 for c in mine if c["impl"]["n"] > 2),
                   rule="one program = one compiled automaton (mode, lookahead or minimiser input/output pair) of a generated, random "
                        "or corpus configuration; decided for ALL strings by exhaustive exploration of the product over the atoms "
                        "(partition of all 1,112,064 scalars); non-trivial = more than 2 states",
                   exhaustive=True, source_programs=info["programs"], skipped_unsupported=info["skipped_unsupported"],
                   sources=sources, what=what,
                   design_models=[{k: r.get(k) for k in ("name", "module", "expect", "tlc_distinct", "wall_s", "automata_compared", "model_drift")} for r in mreps])
        K.write_evidence(prop, tier, seed, "translation_validation", cov,
                         ["TLC and its Json module; regex-syntax parser; the verif_dump/verif_eval_class hooks copy the compiled data faithfully "
                          "(cross-checked by the C01 trace legs which scan with the same automata)",
                          "leaf membership over all scalars is measured through the public API on a scanner built from the leaf alone (C08 decides leaves)"],
                         time.time() - t0, len(viol_files))
        return 1 if unknown else 0
    return chk


def iter_cfg(a, b, adv="TRUE", with_adv="FALSE", peek="TRUE"):
    return (f"INIT IInit\nNEXT INext\nINVARIANT IInv\nCONSTANTS\n  FixLastChar = {a}\n  FixExhaust = {b}\n  FixAdvance = {adv}\n"
            f"  WithAdvance = {with_adv}\n  FixPeekSkip = {peek}\nCHECK_DEADLOCK FALSE\n")


def live_cfg(skip, adv, props):
    """IterLive: temporal properties under weak fairness (SPECIFICATION, no state constraint)."""
    return ("SPECIFICATION LSpec\nINVARIANT StepRefines\n" + "".join(f"PROPERTY {x}\n" for x in props) +
            "CONSTANTS\n  FixLastChar = TRUE\n  FixExhaust = TRUE\n  FixAdvance = TRUE\n  WithAdvance = FALSE\n  FixPeekSkip = TRUE\n"
            f"  SkipConsumes = {skip}\n  AdvanceOnSwitch = {adv}\nCHECK_DEADLOCK FALSE\n")


def ff_cfg(a):
    return f"INIT FInit\nNEXT FNext\nINVARIANT Refines\nCONSTANTS\n  FixCandidates = {a}\nCHECK_DEADLOCK FALSE\n"


def pipe_cfg(drop, ignore, gw):
    return (f"INIT PInit\nNEXT PNext\nINVARIANT PipelineCorrect\nCONSTANTS\n  DropLeadingEmptyAlt = {drop}\n  IgnoreTypes = {ignore}\n"
            f"  GW = {gw}\nCHECK_DEADLOCK FALSE\n")


# layer-B models (design level): must refine the user-level specification; the unrepaired
# variants must be refuted (non-vacuity)
MODEL_LEGS = {
    "C09": lambda q: [
        ("M-IterImpl", "IterImpl", iter_cfg("TRUE", "TRUE"), dict(CFGS="U_C09", SYMS="Syms_C09", MAXLEN=4 if q else 5), False),
        ("M-IterImpl-stale-last-char", "IterImpl", iter_cfg("FALSE", "TRUE"), dict(CFGS="U_C09", SYMS="Syms_C09", MAXLEN=3), True),
        ("M-IterImpl-exhaust-at-last-position", "IterImpl", iter_cfg("TRUE", "FALSE"), dict(CFGS="U_C09", SYMS="Syms_C09", MAXLEN=3), True),
    ],
    "C02": lambda q: [
        ("M-Pipeline-pairs", "Pipeline", pipe_cfg("FALSE", "FALSE", 0), dict(CFGS="U_C01_pairs", MAXLEN=4, HI=600 if q else "Len(Cfgs)"), False),
        ("M-Pipeline-singles", "Pipeline", pipe_cfg("FALSE", "FALSE", 0), dict(CFGS="U_C01_singles", MAXLEN=4, HI=1500 if q else "Len(Cfgs)"), False),
        ("M-Pipeline-leading-empty-alternative-dropped", "Pipeline", pipe_cfg("TRUE", "FALSE", 0), dict(CFGS="U_C01_singles", MAXLEN=3, HI=1500), True),
    ],
    "C03": lambda q: [
        ("M-Minimize-triples", "Pipeline", pipe_cfg("FALSE", "FALSE", 0), dict(CFGS="U_C01_triples", MAXLEN=4, HI=500 if q else "Len(Cfgs)"), False),
        ("M-Minimize-initial-partition-ignores-types", "Pipeline", pipe_cfg("FALSE", "TRUE", 0), dict(CFGS="U_C01_pairs", MAXLEN=3, HI=300), True),
    ],
    "C17": lambda q: [
        ("M-Minimize-keywords-unbounded-ids", "Pipeline", pipe_cfg("FALSE", "FALSE", 0), dict(CFGS="U_PipeW", MAXLEN=4), False),
        ("M-Minimize-keywords-2-bit-group-ids", "Pipeline", pipe_cfg("FALSE", "FALSE", 2), dict(CFGS="U_PipeW", MAXLEN=4), True),
    ],
    "C07": lambda q: [
        ("M-IterLive", "IterLive", live_cfg("TRUE", "TRUE", ["CallReturns", "ScanTerminates", "CursorMonotone"]),
         dict(CFGS="U_C06", SYMS="Syms_C06", MAXLEN=3, HI=40 if q else 400), False),
        ("M-IterLive-skip-does-not-consume", "IterLive", live_cfg("FALSE", "TRUE", ["CallReturns"]), dict(CFGS="U_C06", SYMS="Syms_C06", MAXLEN=3, HI=40), True),
        ("M-IterLive-switch-does-not-advance", "IterLive", live_cfg("TRUE", "FALSE", ["ScanTerminates"]), dict(CFGS="U_C06", SYMS="Syms_C06", MAXLEN=3, HI=40), True),
    ],
    "C10": lambda q: [
        ("M-IterImpl-advance", "IterImpl", iter_cfg("TRUE", "TRUE", "TRUE", "TRUE"), dict(CFGS="U_C10", SYMS="Syms_C06", MAXLEN=3 if q else 4, HI=6), False),
        ("M-IterImpl-advance-relative", "IterImpl", iter_cfg("TRUE", "TRUE", "FALSE", "TRUE"), dict(CFGS="U_C10", SYMS="Syms_C06", MAXLEN=3, HI=6), True),
    ],
    "C11": lambda q: [
        ("M-IterImpl-peek", "IterImpl", iter_cfg("TRUE", "TRUE", "TRUE", "TRUE"), dict(CFGS="U_C10", SYMS="Syms_C06", MAXLEN=3 if q else 4), False),
        ("M-IterImpl-peek-stops-at-unmatched", "IterImpl", iter_cfg("TRUE", "TRUE", "TRUE", "TRUE", "FALSE"), dict(CFGS="U_C10", SYMS="Syms_C06", MAXLEN=3), True),
    ],
    "C05": lambda q: [
        ("M-FindFrom", "FindFrom", ff_cfg("TRUE"), dict(CFGS="U_C05", SYMS="Syms_C04", MAXLEN=4, HI=2500 if q else "Len(Cfgs)"), False),
        ("M-FindFrom-unrepaired", "FindFrom", ff_cfg("FALSE"), dict(CFGS="U_C05", SYMS="Syms_C04", MAXLEN=3, HI=400), True),
    ],
}


def gt_check(gen_legs, profile, n_quick, n_thorough, rule):
    """G legs (TLC-generated behaviours replayed) + one T leg (recorded random histories validated)
    (+ M legs: layer-B models checked against the user-level specification)."""
    def chk(K, prop, tier, seed, t0):
        q = tier == "quick"
        legs = gen_legs(q, seed)
        n = n_quick if q else n_thorough
        fns = [(lambda nm=nm, p=p: K.run_gen_leg(prop, nm, p, workers=5, threads=4)) for nm, p in legs]
        for (nm, mod, cfg, params, neg) in MODEL_LEGS.get(prop, lambda q: [])(q):
            fns.append(lambda nm=nm, mod=mod, cfg=cfg, params=params, neg=neg: K.run_model_leg(prop, nm, mod, cfg, params, expect_violation=neg, workers=4))
        fns.append(lambda: K.run_trace_leg(prop, "T-" + profile, profile, n, seed, shards=6))
        if prop in ("C09", "C10"):
            fns.append(lambda: K.run_drift_leg(prop, "D-IterImpl", 200 if q else 5000, seed))
        if prop in ("C04", "C05"):
            # unbounded, specification level (TLAPS): candidates are exactly the non-empty matches with a satisfied
            # lookahead (C04); the admissible token has maximal extent and is the first listed among those (C05)
            fns.append(lambda: K.run_tlaps_leg(prop, "P-TokProofs"))
        reps = K.run_legs(fns, parallel=4)
        return finish(K, prop, tier, seed, t0, "model_checking", reps, None, ASSUME_COMMON, rule)
    return chk


HIST = '{"next", "peek", "setmode", "scsetmode", "newiter"}'

LEGS = {
    "C04": lambda q, seed: [
        ("G-la-offsets", dict(CFGS="U_C04", SYMS="Syms_C04", MAXLEN=3, STARTOFFS='"all"', MOD=24 if q else 2, SEED=seed)),
        ("G-la-len4", dict(CFGS="U_C04", SYMS="Syms_C04", MAXLEN=4, HI="NDeco", STARTOFFS='"all"')),
    ],
    "C05": lambda q, seed: [
        ("G-pairs", dict(CFGS="U_C05", SYMS="Syms_C04", MAXLEN=4, MOD=10 if q else 1, SEED=seed)),
    ],
    "C06": lambda q, seed: [
        ("G-scan", dict(CFGS="U_C06", SYMS="Syms_C06", MAXLEN=3 if q else 4, MOD=2 if q else 1, SEED=seed)),
        ("G-hist", dict(CFGS="U_C06", SYMS="Syms_C06", MAXLEN=2, OPS=HIST, MAXDEPTH=3 if q else 4, DRAIN="FALSE",
                        NITERS=2, PEEKNS="{1, 2}", MOD=400 if q else 120, SEED=seed)),
    ],
    "C07": lambda q, seed: [
        ("G-nullable", dict(CFGS="U_C01_pairs", MAXLEN=3, OPS='{"next", "peek", "setoffset"}', MAXDEPTH=4, DRAIN="FALSE",
                            PEEKNS="{2}", MOD=1600 if q else 160, SEED=seed)),
    ],
    "C09": lambda q, seed: [
        ("G-pos", dict(CFGS="U_C09", SYMS="Syms_C09", MAXLEN=4, OPS='{"nextpos", "setoffset"}', MAXDEPTH=4 if q else 5,
                       DRAIN="FALSE", BACKONLY="TRUE", ALLPOS="TRUE", MOD=24 if q else 6, SEED=seed)),
        # plain iterators queried through PositionProvider::position: the reset goes through all three public paths
        ("G-pos-plain", dict(CFGS="U_C09", SYMS="Syms_C09", MAXLEN=4, OPS='{"next", "setoffset"}', MAXDEPTH=4 if q else 5,
                             DRAIN="FALSE", BACKONLY="TRUE", ALLPOS="TRUE", MOD=48 if q else 12, SEED=seed)),
        ("G-scanpos", dict(CFGS="U_C09", SYMS="Syms_C09", MAXLEN=5 if q else 6, OPS='{"nextpos"}', MAXDEPTH=9, DRAIN="TRUE",
                           ALLPOS="TRUE", MOD=8 if q else 2, SEED=seed)),
    ],
    "C10": lambda q, seed: [
        ("G-offsets", dict(CFGS="U_C10", SYMS="Syms_C06", MAXLEN=3, OPS='{"next", "peek", "advance", "setoffset", "setmode"}',
                           MAXDEPTH=4 if q else 5, DRAIN="FALSE", PEEKNS="{1, 2}", MOD=24 if q else 48, SEED=seed)),
    ],
    "C11": lambda q, seed: [
        ("G-peek", dict(CFGS="U_C10", SYMS="Syms_C06", MAXLEN=3, OPS='{"next", "peek", "setmode"}', MAXDEPTH=4 if q else 5,
                        DRAIN="FALSE", PEEKNS="{0, 1, 2, 3, 1000000}", MOD=8 if q else 8, SEED=seed)),
        ("G-peek-graphs", dict(CFGS="U_C06", SYMS="Syms_C06", MAXLEN=3, OPS='{"next", "peek"}', MAXDEPTH=3, DRAIN="FALSE",
                               PEEKNS="{1, 3}", MOD=60 if q else 6, SEED=seed)),
    ],
    "C12": lambda q, seed: [
        ("G-iters", dict(CFGS="U_C10", SYMS="Syms_C06", MAXLEN=2, OPS=HIST, MAXDEPTH=4 if q else 5, DRAIN="FALSE", NITERS=3,
                         PEEKNS="{1}", SECOND="{2, 7}", MOD=3 if q else 3, SEED=seed)),
        ("G-twin-scanners", dict(CFGS="U_C10", SYMS="Syms_C06", MAXLEN=2, OPS='{"next", "peek", "setmode", "scsetmode", "newiter"}', MAXDEPTH=4 if q else 5,
                                 DRAIN="FALSE", NITERS=2, PEEKNS="{1}", SECOND="{7}", MOD=5 if q else 10, SEED=seed, TWIN="TRUE")),
    ],
}

def check_C13(K, prop, tier, seed, t0):
    q = tier == "quick"
    reps = [K.run_gen_leg(prop, "G-builds", dict(CFGS="U_C13", SYMS="Syms_C04", MAXLEN=3, MAXBUILDS=3 if q else 4),
                          workers=8, threads=16, module="Gen_Cache", isolate=True)]
    # two valid configurations constructed to have the same FxHash (they differ in two token types), both built
    # through the cache and scanned; recorded and validated by TLC against Tokenizer (Trace_Api)
    col = K.run_trace_leg(prop, "T-hash-collision", "c13x", 1, seed, shards=1)
    if col["traces_recorded"] == 0:
        K.log("[trace] T-hash-collision: no collision could be constructed for the hasher in use; the leg says nothing")
    reps.append(col)
    return finish(K, prop, tier, seed, t0, "model_checking", reps, dict(hash_collision_constructed=col["traces_recorded"] == 1), ASSUME_COMMON,
                  "T-hash-collision: one recorded trace of three cached builds (A, B, A) of two valid configurations whose Vec<ScannerMode> "
                  "have equal FxHash (constructed: FxHash is affine in the words it is fed), each scanned; "
                  "G: all sequences of MaxBuilds cached builds over a base configuration, its one-field neighbours and three "
                  "configurations that do not build; every sequence runs in a fresh process; after every build all inputs up to "
                  "length 3 are scanned and compared with Tokenizer's stream for that configuration and with a build_uncached twin")


def check_C15(K, prop, tier, seed, t0):
    q = tier == "quick"
    fns = [lambda: K.run_gen_leg(prop, "G-planted", dict(CFGS="U_C15", SYMS="Syms_C04", MAXLEN=1, MAXBUILDS=1),
                                 workers=8, threads=8, module="Gen_Cache"),
           lambda: K.run_trace_leg(prop, "T-c15", "c15", 3000 if q else 200000, seed, shards=8)]
    reps = K.run_legs(fns, parallel=2)
    return finish(K, prop, tier, seed, t0, "model_checking", reps, None, ASSUME_COMMON,
                  "G: 12 supported host regexes with each of 22 unsupported constructs planted at every node position, as pattern or "
                  "lookahead, in the first or second mode, plus the unplanted hosts; T: random strings over the regex meta-alphabet "
                  "(token soup and edited well-formed patterns); build must return Err exactly when the specification says so and never panic")


def check_C18(K, prop, tier, seed, t0):
    q = tier == "quick"
    n = 100 if q else 2000
    tabs = [K.emit_tables(prop, "tab-la", dict(CFGS="U_C04", SYMS="Syms_C04", HI=300 if q else 3000)),
            K.emit_tables(prop, "tab-graphs", dict(CFGS="U_C06", SYMS="Syms_C06", HI=200 if q else 2000))]
    sources = ["tables:" + t for t in tabs] + [f"random:c04:{n}:{seed}", f"random:c06:{n}:{seed}", "corpus"]
    out = os.path.join(K.WORK, f"{prop}-{os.getpid()}", "dot")
    scratch = os.path.join(K.WORK, f"{prop}-{os.getpid()}", "dotscratch")
    p = subprocess.run([K.HARNESS, "dotcheck", out, scratch] + sources, env=K.base_env(), stdout=subprocess.PIPE, stderr=subprocess.PIPE, text=True)
    if p.returncode != 0:
        K.harness_failed("dotcheck", p.returncode, p.stderr)
    info = json.loads(p.stdout.strip().splitlines()[-1])
    cases_path = os.path.join(out, "dotcases.json")
    d = K.leg_dir(prop, "picture")
    with open(os.path.join(d, "d.cfg"), "w") as f:
        f.write("INIT DInit\nNEXT DNext\nINVARIANT DReport\nCHECK_DEADLOCK FALSE\n")
    pr = subprocess.run(K.tlc_cmd(1, os.path.join(d, "md"), "d.cfg", "DotPicture.tla"), cwd=d, env=K.tlc_env({"VERIF_CASES": cases_path}),
                        stdout=subprocess.PIPE, stderr=subprocess.STDOUT, text=True)
    lines = pr.stdout.splitlines()
    gen, dist, errs = K.parse_tlc(lines)
    if pr.returncode != 0 or errs or gen is None:
        K.log("\n".join(lines[-30:])); raise K.ToolError("DotPicture: TLC failed")
    bad = [int(l.split(",")[1].strip(" >")) for l in lines if l.startswith('<<"DOT-DIFF"')]
    with open(cases_path) as f:
        cases = json.load(f)
    with open(os.path.join(out, "dotmeta.json")) as f:
        meta = json.load(f)
    K.log(f"[dot] {info['programs']} programs, {len(cases)} cases ({info['files']} files parsed), {len(bad)} differences")
    vdir = os.path.join(out, "viol"); os.makedirs(vdir, exist_ok=True)
    files = []
    for k in bad:
        c = cases[k - 1]
        v = dict(kind="dot", case_kind=c["kind"], origin=c.get("origin"), mode_name=c.get("name"), file=c.get("file"), returned=c.get("returned"),
                 wellformed=c.get("wellformed"), parse_error=c.get("error"), what=c.get("what"), listed=c.get("listed"), expected=c.get("expected"),
                 configurations=[meta[k - 1]], inputs=[c.get("name") or c.get("what") or ""], calls_specified=[],
                 difference=("exported file is not well-formed DOT: " + c.get("error", "")) if c["kind"] == "file" and not c.get("wellformed")
                            else "the exported artefact is not the picture of the compiled automaton (DotPicture!CaseOK fails)")
        path = os.path.join(vdir, f"v{len(files)}.json")
        with open(path, "w") as f:
            json.dump(v, f, ensure_ascii=False, indent=1)
        files.append(path)
    unknown = K.report_violations(prop, files, len(files))
    fc = [c for c in cases if c["kind"] == "file"]
    samples = [{"mode": c["name"], "file": c["file"], "states": c["dump"]["n"], "edges": len(c["dump"]["trans"]), "lookaheads": len(c["dump"]["la"])} for c in fc[:2] + fc[-2:]]
    cov = dict(programs=len(fc), disagreements_checked=len(bad), samples=samples, states=dist, transitions=gen,
               evaluations=len(cases), distinct_nontrivial=sum(1 for c in fc if c["dump"]["n"] > 2),
               rule="one program = one exported file (mode) compared by TLC with the picture of its dumped automaton; plus one directory-listing "
                    "case per configuration and three fault cases (missing folder, parent is a file, target is a file); non-trivial = more than 2 states",
               sources=sources, fault_cases=sum(1 for c in cases if c["kind"] == "fault"))
    K.write_evidence(prop, tier, seed, "translation_validation", cov,
                     ["the harness' strict DOT parser (Graphviz subset dot-writer emits: digraph, attributes, nodes, edges, one level of subgraphs)",
                      "verif_dump is a faithful copy of the compiled automata", "mode names are restricted to characters valid in a file name (no '/')"],
                     time.time() - t0, len(files))
    return 1 if unknown else 0


def check_C16(K, prop, tier, seed, t0):
    d = K.leg_dir(prop, "serde")
    pool = os.path.join(d, "pool.json"); emitted = os.path.join(d, "emitted.ndjson"); back = os.path.join(d, "back.ndjson")
    subprocess.run([K.HARNESS, "serde", "pool", pool], check=True, env=K.base_env())
    with open(os.path.join(d, "s.cfg"), "w") as f:
        f.write("INIT SInit\nNEXT SNext\nINVARIANT SReport\nINVARIANT SComplete\nCHECK_DEADLOCK FALSE\n")
    env = {"VERIF_POOL": pool, "VERIF_OUT": emitted, "VERIF_BACK": back}
    def tlc(phase):
        pr = subprocess.run(K.tlc_cmd(1, os.path.join(d, "md-" + phase), "s.cfg", "SerdeLayout.tla"), cwd=d,
                            env=K.tlc_env(dict(env, VERIF_PHASE=phase)), stdout=subprocess.PIPE, stderr=subprocess.STDOUT, text=True)
        lines = pr.stdout.splitlines()
        gen, dist, errs = K.parse_tlc(lines)
        if pr.returncode != 0 or errs or gen is None:
            K.log("\n".join(lines[-30:])); raise K.ToolError(f"SerdeLayout {phase}: TLC failed")
        return lines, gen, dist
    tlc("emit")
    p = subprocess.run([K.HARNESS, "serde", "run", emitted, back, "/repo/README.md"], env=K.base_env(), stdout=subprocess.PIPE, stderr=subprocess.PIPE, text=True)
    if p.returncode != 0:
        K.harness_failed("serde", p.returncode, p.stderr)
    lines, gen, dist = tlc("check")
    bad = [int(l.split(",")[1].strip(" >")) for l in lines if l.startswith('<<"SERDE-DIFF"')]
    missing = [l for l in lines if l.startswith('<<"SERDE-MISSING"')]
    with open(back) as f:
        backs = [json.loads(l) for l in f]
    with open(emitted) as f:
        ems = [json.loads(l) for l in f]
    K.log(f"[serde] {len(ems)} values emitted by TLC, {len(backs)} lines back, {len(bad)} differences, missing={bool(missing)}")
    vdir = os.path.join(d, "viol"); os.makedirs(vdir, exist_ok=True)
    files = []
    for k in bad:
        b = backs[k - 1]
        em = ems[b["id"] - 1] if b.get("id") else None
        v = dict(kind="serde", value_kind=b["kind"], configurations=[em["value"] if em else "README.md json block"], inputs=[], calls_specified=[],
                 rust_side=b, difference="serialisation round trip differs (see rust_side flags; 'value' is serde's text read back by TLC)")
        path = os.path.join(vdir, f"v{len(files)}.json")
        with open(path, "w") as f:
            json.dump(v, f, ensure_ascii=False, indent=1)
        files.append(path)
    if missing:
        path = os.path.join(vdir, "missing.json")
        with open(path, "w") as f:
            json.dump(dict(kind="serde", configurations=[], inputs=[], calls_specified=[], difference="not every emitted value came back: " + missing[0]), f)
        files.append(path)
    unknown = K.report_violations(prop, files, len(files))
    nmodes = sum(1 for e in ems if e["kind"] == "modes")
    cov = dict(states=max(1, dist), transitions=max(1, gen), traces_validated_against_impl=len(backs), evaluations=len(backs),
               distinct_nontrivial=nmodes, samples=[ems[3], ems[nmodes - 1], ems[-1]],
               rule="TLC enumerates mode lists (names/patterns from a pool with quotes, backslashes, control and non-ASCII characters; lookahead "
                    "absent/positive/negative; 0-2 transitions; 1-2 modes) and Span/Position/Match/MatchExt values, writes them with its own "
                    "serialiser; Rust deserialises, compares with API-built values, re-serialises, builds and scans; TLC reads serde's text back",
               exhaustive=True)
    K.write_evidence(prop, tier, seed, "model_checking", cov,
                     ["TLC's Json module (layout oracle) and serde_json", "TLC integers are 32-bit: numeric fields are explored up to 2^31-1 only",
                      "identical behaviour is judged by scanning four probe inputs with both scanners"], time.time() - t0, len(files))
    return 1 if unknown else 0


def check_C08(K, prop, tier, seed, t0):
    q = tier == "quick"
    d = K.leg_dir(prop, "classes")
    shapes = os.path.join(d, "shapes.ndjson"); back = os.path.join(d, "back.ndjson"); facts = os.path.join(d, "facts.json")
    with open(os.path.join(d, "k.cfg"), "w") as f:
        f.write("INIT KInit\nNEXT KNext\nINVARIANT KReport\nCHECK_DEADLOCK FALSE\n")
    env = {"VERIF_OUT": shapes, "VERIF_BACK": back, "VERIF_FACTS": facts, "VERIF_STRIDE": str(97 if q else 3), "VERIF_OFFSET": str(seed % 97)}
    def tlc(phase):
        pr = subprocess.run(K.tlc_cmd(1, os.path.join(d, "md-" + phase), "k.cfg", "CharClass.tla"), cwd=d,
                            env=K.tlc_env(dict(env, VERIF_PHASE=phase)), stdout=subprocess.PIPE, stderr=subprocess.STDOUT, text=True)
        lines = pr.stdout.splitlines()
        gen, dist, errs = K.parse_tlc(lines)
        if pr.returncode != 0 or errs or gen is None:
            K.log("\n".join(lines[-30:])); raise K.ToolError(f"CharClass {phase}: TLC failed")
        return lines, gen, dist
    tlc("emit")
    p = subprocess.run([K.HARNESS, "classes", shapes, back, facts, "3" if q else "6", str(seed), "16"], env=K.base_env(),
                       stdout=subprocess.PIPE, stderr=subprocess.PIPE, text=True)
    if p.returncode != 0:
        K.harness_failed("classes", p.returncode, p.stderr)
    info = json.loads(p.stdout.strip().splitlines()[-1])
    lines, gen, dist = tlc("check")
    bad = [int(l.split(",")[1].strip(" >")) for l in lines if l.startswith('<<"CLASS-DIFF"')]
    factsbad = [l for l in lines if l.startswith('<<"CLASS-FACTS"')]
    with open(back) as f:
        backs = [json.loads(l) for l in f]
    K.log(f"[classes] {info['shapes']} shapes, {info['measured']} instantiations ({info['distinct_classes']} distinct classes), "
          f"{len(bad)} differences, facts {'FAIL' if factsbad else 'ok'}")
    vdir = os.path.join(d, "viol"); os.makedirs(vdir, exist_ok=True)
    files = []
    for k in bad:
        b = backs[k - 1]
        wrong = [a for a in b["atoms"] if not a["constant"]] or b["atoms"]
        v = dict(kind="class", configurations=[b["class"]], inputs=[b["items"]], calls_specified=[], measured=b,
                 difference=("class does not build: " + b.get("error", "")) if not b["built"] else
                            "membership of the class is not the boolean combination of its items on some atom (representative code points in measured.atoms[].rep)")
        path = os.path.join(vdir, f"v{len(files)}.json")
        with open(path, "w") as f:
            json.dump(v, f, ensure_ascii=False, indent=1)
        files.append(path)
    if factsbad:
        with open(facts) as f:
            fx = json.load(f)
        path = os.path.join(vdir, "facts.json")
        with open(path, "w") as f:
            json.dump(dict(kind="class", configurations=["base facts"], inputs=[], calls_specified=[], measured=fx,
                           difference="a base fact of C08 fails (literal, dot, ASCII restriction of \\d \\s \\w, complements, range bounds)"), f, ensure_ascii=False, indent=1)
        files.append(path)
    unknown = K.report_violations(prop, files, len(files))
    with open(facts) as f:
        fx = json.load(f)
    cov = dict(literal_facts=len(fx["literals"]), literal_spellings_not_built=fx.get("literal_spellings_not_built", []),
               evaluations=(info["measured"] + len(fx["literals"])) * 1112064, distinct_nontrivial=info["distinct_classes"],
               rule="evaluations = class instantiations x 1,112,064 scalars (every scalar is classified, exhaustively, for every instantiation); "
                    "distinct_nontrivial = distinct concrete class texts measured; shapes: all expressions of depth <= 1 over 5 base symbols, "
                    "8 hand-picked deeper ones and a stride through depth 2; 3 (quick) / 6 (thorough) random instantiations each from a table of 51 items; "
                    "literal_facts: every spelling of a literal (verbatim, escaped, \\xHH, \\x{H}, \\uHHHH, \\u{H}, \\UHHHHHHHH) of 34 characters incl. all "
                    "metacharacters, at top level and as a one-element class, each measured over all scalars",
               samples=[{"class": b["class"], "atoms": len(b["atoms"])} for b in backs[:3] + backs[-3:]],
               exhaustive=True, shapes=info["shapes"], states=dist, transitions=gen)
    K.write_evidence(prop, tier, seed, "exploration", cov,
                     ["an item 'used alone' is measured through the public API on a one-pattern scanner over a string holding every scalar once",
                      "[.] inside brackets is the dot set (documented behaviour, README relies on it); TLC, regex-syntax"], time.time() - t0, len(files))
    return 1 if unknown else 0


def sendsync_probe(K):
    """Scanner: Send + Sync as a compile-time fact (harness/sendsync). Returns (ok, compiler output)."""
    d = os.path.join(K.HARNESS_DIR, "sendsync")
    p = subprocess.run(["cargo", "build", "--offline"], cwd=d, env=K.base_env(), stdout=subprocess.PIPE, stderr=subprocess.STDOUT, text=True)
    if p.returncode == 0:
        return True, ""
    if "E0277" in p.stdout:
        return False, p.stdout
    K.log(p.stdout[-3000:])
    raise K.ToolError("sendsync probe: build failed for a reason other than E0277")


def check_C14(K, prop, tier, seed, t0):
    q = tier == "quick"
    files = []
    vroot = os.path.join(K.WORK, f"{prop}-{os.getpid()}"); os.makedirs(vroot, exist_ok=True)
    # static side condition
    ok, out = sendsync_probe(K)
    if not ok:
        path = os.path.join(vroot, "sendsync.json")
        with open(path, "w") as f:
            json.dump(dict(kind="sendsync", configurations=["fn f<T: Send + Sync>() {} f::<scnr::Scanner>()"], inputs=[], calls_specified=[],
                           difference="Scanner (or a value type) is not Send + Sync: the probe crate does not compile (E0277)", compiler=out[-3000:]), f, indent=1)
        files.append(path)
    # M: exhaustive model check of the design
    d = K.leg_dir(prop, "model")
    with open(os.path.join(d, "mc.cfg"), "w") as f:
        f.write("SPECIFICATION CSpec\nCONSTANTS\n  Threads <- MCThreads\n  Keys <- MCKeys\n  BadKeys <- MCBad\n  ProgSpace <- MCProgSpace\n"
                "INVARIANTS TypeOK CacheCoherentC SequentialResults\nPROPERTIES Termination FailLeavesCache\nCHECK_DEADLOCK FALSE\n")
    pr = subprocess.run(K.tlc_cmd(8, os.path.join(d, "md"), "mc.cfg", "MC_CacheConc.tla", extra=("-coverage", "1")), cwd=d, env=K.tlc_env(),
                        stdout=subprocess.PIPE, stderr=subprocess.STDOUT, text=True)
    lines = pr.stdout.splitlines()
    mgen, mdist, errs = K.parse_tlc(lines)
    if pr.returncode != 0 or errs or mgen is None or not any("No error has been found" in l for l in lines):
        K.log("\n".join(lines[-40:])); raise K.ToolError("MC_CacheConc: model checking failed (the specification itself is broken)")
    # coverage: every action of the critical section must have been taken
    zero = [l for l in lines if l.startswith("<") and l.rstrip().endswith(": 0:0")]
    if zero:
        K.log("\n".join(zero)); raise K.ToolError("MC_CacheConc: an action was never taken (vacuous model)")
    K.log(f"[model] CacheConc: {mdist} distinct states, invariants and liveness hold")
    # unbounded-length safety of the critical section: an inductive invariant discharged by Apalache
    from concurrent.futures import ThreadPoolExecutor
    apa_pool = ThreadPoolExecutor(max_workers=1)
    apa_fut = apa_pool.submit(K.run_apalache_inductive, prop, "I-CacheInd", "CacheInd", "ConstInit", "Init", "IndInv")
    # T: sampled real schedules
    n = 120 if q else 600
    rec = os.path.join(vroot, "threads")
    p = subprocess.run([K.HARNESS, "threads", str(n), str(seed), rec, "16" if not q else "8"], env=K.base_env(), stdout=subprocess.PIPE, stderr=subprocess.PIPE, text=True, timeout=3000)
    if p.returncode != 0:
        K.harness_failed("threads", p.returncode, p.stderr)
    info = json.loads(p.stdout.strip().splitlines()[-1])
    with open(os.path.join(rec, "threads.json")) as f:
        tj = json.load(f)
    if info["hangs"]:
        path = os.path.join(vroot, "hang.json")
        hs = [s for s in tj["schedules"] if s.get("hang")]
        with open(path, "w") as f:
            json.dump(dict(kind="threads", configurations=[hs[0].get("modes")], inputs=[], calls_specified=[], schedule=hs[0],
                           difference="threads did not finish within 30 s: deadlock or livelock"), f, indent=1)
        files.append(path)
    # (i) the cache event log is a behaviour of CacheConc's critical section
    d2 = K.leg_dir(prop, "cachetrace")
    with open(os.path.join(d2, "tc.cfg"), "w") as f:
        f.write("INIT TCInit\nNEXT TCNext\nPOSTCONDITION CacheTraceAccepted\nCHECK_DEADLOCK FALSE\n")
    ctrace = os.path.join(rec, "cache_trace.ndjson")
    pr = subprocess.run(K.tlc_cmd(1, os.path.join(d2, "md"), "tc.cfg", "Trace_Cache.tla"), cwd=d2, env=K.tlc_env({"VERIF_CACHE_TRACE": ctrace}, deque=True),
                        stdout=subprocess.PIPE, stderr=subprocess.STDOUT, text=True)
    lines = pr.stdout.splitlines()
    cgen, cdist, errs = K.parse_tlc(lines)
    acc = [l for l in lines if l.startswith('<<"TRACE-ACCEPTED"')]
    rej = [l for l in lines if l.startswith('<<"TRACE-REJECTED-AT"')]
    if not acc and not rej:
        K.log("\n".join(lines[-30:])); raise K.ToolError("Trace_Cache: no verdict")
    if rej:
        at = int(rej[0].split(",")[1].strip(" >"))
        with open(ctrace) as f:
            evs = [json.loads(l) for l in f]
        path = os.path.join(vroot, "cachetrace.json")
        with open(path, "w") as f:
            json.dump(dict(kind="cachetrace", configurations=[], inputs=[], calls_specified=evs[max(0, at - 12):at], rejected_event=evs[at - 1],
                           difference="the cache event log (emitted under the lock) is not a behaviour of CacheConc's critical-section actions"), f, indent=1)
        files.append(path)
    K.log(f"[cache-trace] {info['cache_events']} events over {info['keys']} keys: {'accepted' if acc else 'REJECTED'}")
    # (ii) every thread observes the sequential results
    stats, viols, _ = K.validate_recorded(prop, "thread-results", rec, shards=8)
    files.extend(viols)
    K.log(f"[thread-results] {stats['accepted'] + stats['rejected']} thread traces / {stats['events']} events, {stats['rejected']} rejected")
    unknown = K.report_violations(prop, files, len(files))
    apa = apa_fut.result()
    with open(os.path.join(rec, "meta.json")) as f:
        meta = json.load(f)
    cov = dict(inductive_invariant={k: apa[k] for k in ("module", "invariant", "obligations", "discharged", "checker_cmd", "wall_s")},
               states=mdist + (cdist or 0) + stats["states"], transitions=mgen + (cgen or 0) + stats["states"],
               traces_validated_against_impl=stats["accepted"] + stats["rejected"] + 1, evaluations=info["cache_events"] + stats["events"],
               distinct_nontrivial=info["keys"],
               samples=[{"schedule": meta[0].get("schedule"), "thread": meta[0].get("thread"), "events": meta[0]["last_event"] - meta[0]["first_event"] + 1,
                         "configuration": meta[0]["modes"]}] if meta else [{"note": "none"}],
               rule="model: 3 threads x all build programs of length <= 2 over {A, B, bad}, all interleavings (MutualExclusion by construction of the lock "
                    "variable, CacheCoherent, SequentialResults, Termination under weak fairness); code: N=2..8 (quick) / 2..16 threads released by a barrier, "
                    "seeded programs of cached/uncached builds (hits, misses, failing builds) and scans of shared and private scanners with random yields; "
                    "the under-lock event log is validated against CacheConc and every thread's calls against the sequential ScannerApi; "
                    "distinct_nontrivial = distinct cache keys requested",
               model_states=mdist, schedules=n, cache_events=info["cache_events"], sendsync_probe="compiles" if ok else "E0277", hangs=info["hangs"])
    K.write_evidence(prop, tier, seed, "model_checking", cov,
                     ["sampled schedules of the real code, not all schedules; the model is checked exhaustively for 3 threads",
                      "cache events are emitted by the verif_hooks inside ScannerCache::get while the write lock is held",
                      "Send/Sync is a compile-time fact checked by a probe crate"], time.time() - t0, len(files))
    return 1 if unknown else 0


def check_C17(K, prop, tier, seed, t0):
    q = tier == "quick"
    mreps = [K.run_model_leg(prop, nm, mod, cfg, params, expect_violation=neg, workers=4)
             for (nm, mod, cfg, params, neg) in MODEL_LEGS["C17"](q)]
    # the chunked count RegexSem uses for a{m,n} over a leaf is the iteration (evaluated on all small cases)
    mreps.append(K.run_model_leg(prop, "L-RepLeaf", "Lemma_RepLeaf", "INIT LInit\nNEXT LNext\nCHECK_DEADLOCK FALSE\n", {}, workers=1))
    rec = os.path.join(K.WORK, f"{prop}-{os.getpid()}", "large")
    p = subprocess.run([K.HARNESS, "large", rec, "keywords" if q else "both"], env=K.base_env(), stdout=subprocess.PIPE, stderr=subprocess.PIPE, text=True, timeout=3 * 3600)
    if p.returncode != 0:
        K.harness_failed("large", p.returncode, p.stderr)
    info = json.loads(p.stdout.strip().splitlines()[-1])
    K.log(f"[large] recorded {info['traces']} full-scale configurations, {info['events']} events, build seconds {info['build_seconds']}")
    stats, viols, _ = K.validate_recorded(prop, "large-traces", rec, shards=2)
    unknown = K.report_violations(prop, viols, len(viols))
    with open(os.path.join(rec, "meta.json")) as f:
        meta = json.load(f)
    cov = dict(evaluations=stats["events"], distinct_nontrivial=max(2, sum(1 for m in meta for _ in m["inputs"])),
               rule="full-scale configurations whose unminimised automaton and minimiser partition cross 2^16: (a) 65 700 one-character patterns with "
                    "their own token types, scanned on the characters around index 0, around 2^16, at the end and on a stride; (b, thorough only) "
                    "a{66000}b on a^66000 b, one more, one less (scanned from 5 characters before its end), a^132000 b from offset 65 998, and the lengths 463..465 "
                    "that a wrapped group id accepts. Each run is recorded "
                    "and validated by TLC against Tokenizer (Trace_Api); a build error is an admissible outcome; distinct_nontrivial = inputs scanned",
               samples=[{k: m[k] for k in ("what", "inputs", "build_seconds")} for m in meta],
               traces_validated_against_impl=stats["accepted"] + stats["rejected"], states=max(1, stats["states"]), transitions=max(1, stats["states"]),
               design_models=[{k: r[k] for k in ("name", "module", "expect", "tlc_distinct", "wall_s")} for r in mreps])
    K.write_evidence(prop, tier, seed, "exploration", cov,
                     ["nothing smaller than 2^16 states can expose the property: the check is a handful of full-scale cases judged by the specification",
                      "build time of the code under test dominates (about 130 s for (a), about 20 min for (b))"], time.time() - t0, len(viols))
    return 1 if unknown else 0


CHECKS = {
    "C01": check_C01,
    "C17": check_C17,
    "C14": check_C14,
    "C08": check_C08,
    "C16": check_C16,
    "C18": check_C18,
    "C15": check_C15,
    "C13": check_C13,
    "C02": equiv_check(("mode", "la"), "compiled automaton vs position automaton of the source patterns"),
    "C03": equiv_check(("min",), "automaton before vs after Minimizer::minimize"),
    "C04": gt_check(LEGS["C04"], "c04", 300, 6000, "modes with positive/negative/no lookaheads, every start offset; random real-syntax histories with set_offset"),
    "C05": gt_check(LEGS["C05"], "c05", 300, 6000, "all ordered pairs of decorated patterns with at least one lookahead; random real-syntax modes with 2..5 patterns"),
    "C06": gt_check(LEGS["C06"], "c06", 300, 6000, "all mode graphs with 1-2 modes (3 modes: a stride) x inputs; call histories with set_mode/peek/new iterators; random mode graphs"),
    "C07": gt_check(LEGS["C07"], "c07", 300, 6000, "nullable pattern pairs with next/peek/set_offset histories; hostile random configurations"),
    "C09": gt_check(LEGS["C09"], "c09", 300, 6000, "inputs over x, e-acute, newline with position queries for all scanned offsets after every call"),
    "C10": gt_check(LEGS["C10"], "c10", 300, 6000, "core configurations x inputs x histories over next/peek/advance_to/set_offset/set_mode"),
    "C11": gt_check(LEGS["C11"], "c11", 300, 6000, "peek_n(0..3) at every point of every history"),
    "C12": gt_check(LEGS["C12"], "c12", 300, 6000, "up to three iterators over one scanner, interleaved"),
}
def replay(K, prop, path):
    """bin/check <id> --replay <file>: re-runs the failing case of a violation report against the
    code as it is now."""
    with open(path) as f:
        v = json.load(f)
    kind = v.get("kind")
    if kind == "replay":
        p = subprocess.run([K.HARNESS, "replay1", path], text=True, stdout=subprocess.PIPE)
        print(p.stdout, end="")
        if p.returncode == 1:
            print(f"VIOLATION property={prop} replay={path}")
        return p.returncode
    if kind == "trace":
        rec = os.path.join(K.WORK, f"{prop}-{os.getpid()}", "retrace")
        p = subprocess.run([K.HARNESS, "retrace", path, rec], text=True, stdout=subprocess.PIPE, stderr=subprocess.PIPE)
        if p.returncode != 0:
            K.harness_failed("retrace", p.returncode, p.stderr)
        stats, viols, _ = K.validate_recorded(prop, "retrace-v", rec, shards=1)
        if viols:
            with open(viols[0]) as f:
                nv = json.load(f)
            print("REPRODUCED: the re-driven execution is rejected again at", json.dumps(nv["rejected_event"], ensure_ascii=False))
            print(f"VIOLATION property={prop} replay={path}")
            return 1
        print("NOT REPRODUCED: the re-driven execution is a behaviour of the specification")
        return 0
    # other kinds (product exploration, DOT, serde, classes, threads): re-run the quick check and look for the same case
    fn = CHECKS[prop]
    rc = fn(K, prop, "quick", int(os.environ.get("VERIF_SEED", "1")), time.time())
    sig = v.get("signature")
    again = False
    for f in os.listdir(K.REPLAY_DIR):
        if f.startswith(prop + "-"):
            with open(os.path.join(K.REPLAY_DIR, f)) as g:
                if json.load(g).get("signature") == sig:
                    again = True
    print("REPRODUCED: the quick check reports the same case again" if again else "NOT REPRODUCED by the quick check")
    return 1 if again else 0
