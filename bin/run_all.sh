#!/bin/bash
# runs every registered quick check in sequence; prints exit code and wall time per check
cd /verif
tier=${1:-quick}
for c in C01 C02 C03 C04 C05 C06 C07 C08 C09 C10 C11 C12 C13 C14 C15 C16 C17 C18; do
  s=$(date +%s)
  out=$(VERIF_SEED=${VERIF_SEED:-1} bin/check $c --tier $tier 2>/dev/null)
  rc=$?
  e=$(date +%s)
  echo "$c rc=$rc $((e-s))s $(echo "$out" | grep -c '^VIOLATION') violations"
done
