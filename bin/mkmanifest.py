#!/usr/bin/env python3
"""Writes MANIFEST.json from the table below (one source of truth for commands and levels)."""
import json, os
VERIF = os.path.dirname(os.path.dirname(os.path.abspath(__file__)))
HOOK_COMMITS = ["a41b6df"]
T_TEXT = ("The harness drives the real code with seeded random configurations in real regex syntax, random inputs and random call histories, "
          "logs every public call with its arguments and result, and TLC decides whether the log is a behaviour of the TLA+ specification "
          "(Trace_Api over ScannerApi/Tokenizer/RegexSem); ")
G_TEXT = ("TLC enumerates all behaviours of the user-level specification (ScannerApi/Tokenizer/RegexSem) inside small bounds "
          "(pattern universe, input length, history depth) and each behaviour is replayed through the public API and compared result by result; ")
NOTE = ("bounded worlds / sampled random histories; harness concretisation (atoms -> characters, abstract token types / peek counts / offsets -> usize values "
        "up to usize::MAX), atom computation and regex printer; regex-syntax parser; TLC and its Json module")
PROOF = " The choice rule of the specification itself (candidates = non-empty matches with satisfied lookahead; maximal extent, then first listed) is proved for all inputs with TLAPS (TokProofs, 118 obligations)."
TECH = "TLA+ spec (ScannerApi) + TLC: generated behaviours replayed into the code, recorded executions validated by TLC"
CHECKS = {
 "C01": ("model_checking", "5 C01", G_TEXT + "modes without lookahead: longest match, priority, skipping, byte spans; token types concretised up to usize::MAX." + PROOF, NOTE, TECH),
 "C02": ("translation_validation", "5 C02", "For every mode and lookahead of generated, random and corpus configurations the compiled automaton is dumped (hook) and TLC explores its product with the specification's own position automaton of the source patterns over the atoms of all 1,112,064 scalars; equal accepted token-type sets in every reachable product state decides language equality for ALL strings; static conjuncts: registered class ids, accepting types, empty string not accepted.", "hooks verif_dump/verif_eval_class are faithful copies; leaf membership measured through the public API; TLC; regex-syntax", "TLA+ spec (Equiv over RegexSem's Glushkov automaton) + TLC product exploration on automaton dumps"),
 "C03": ("translation_validation", "5 C03", "Every (input, output) pair of Minimizer::minimize recorded while building the C02 program set is compared by TLC product exploration over atoms: same accepted types after every string, start state preserved, no more states than before.", "hook records the automata entering and leaving the minimizer; TLC", "TLA+ spec (Equiv) + TLC product exploration on minimizer input/output dumps"),
 "C04": ("model_checking", "5 C04", G_TEXT + T_TEXT + "modes mixing positive, negative and no lookaheads, with with_offset/set_offset." + PROOF, NOTE, TECH),
 "C05": ("model_checking", "5 C05", G_TEXT + T_TEXT + "modes with two or more patterns and lookaheads: the reported token must be a member of Tokenizer!Best (maximal extent, then first pattern); a panic is an unexplained event." + PROOF, NOTE, TECH),
 "C06": ("model_checking", "5 C06", G_TEXT + T_TEXT + "random mode graphs, set_mode on iterators and scanners, new iterators; current_mode() is compared after every call.", NOTE, TECH),
 "C07": ("model_checking", "5 C07", G_TEXT + T_TEXT + "hostile configurations (nullable patterns, 1-4 byte characters, empty inputs), calls after exhaustion; WellFormed/Progress are invariants of the specification and every logged token must be one the specification allows. Liveness: IterLive (next_match, one action per loop iteration) satisfies CallReturns and ScanTerminates under weak fairness (TLC, two broken variants refuted); in the code a call that does not return within 120 s is reported as a violation by the harness watchdog.", NOTE, TECH),
 "C09": ("model_checking", "5 C09", G_TEXT + T_TEXT + "WithPositions iterators, position queries for scanned offsets, resets to earlier offsets, exhaustion.", NOTE, TECH),
 "C10": ("model_checking", "5 C10", G_TEXT + T_TEXT + "with_offset/set_offset to every kind of boundary, peek_n + advance_to, set_mode.", NOTE, TECH),
 "C11": ("model_checking", "5 C11", G_TEXT + T_TEXT + "peek_n(n) at random points of random histories; token list, classification, target mode and purity (later calls) are checked, for n = 0..5 and n = usize::MAX; the peek_n loop is also modelled in layer B (IterImpl!PeekLoop) and TLC checks that it refines the user-level PeekResults (and refutes the loop as it was before repair D6).", NOTE, TECH),
 "C13": ("model_checking", "5 C13", "TLC enumerates all sequences of cached builds over a base configuration, its one-field neighbours (token type, order, lookahead, polarity, transition, mode name, spelling) and configurations that do not build; each sequence runs in a fresh process through build(), is scanned on all probe inputs and compared with Tokenizer's prescription for that configuration and with a build_uncached twin; in addition two valid configurations constructed to have the same FxHash (the cache's hasher) are built through the cache and scanned, recorded and validated by TLC.", NOTE, "TLA+ spec (Gen_Cache over ScannerApi!Build) + TLC-generated build sequences replayed in fresh processes"),
 "C15": ("model_checking", "5 C15", "TLC enumerates supported host regexes with one documented-unsupported construct planted at every node position (pattern or lookahead, first or second mode) and replays the builds; random strings over the regex meta-alphabet are built by the harness and TLC validates the verdict (Err iff syntax error or unsupported construct) - a panic is never a behaviour.", NOTE + "; the harness' translation of the regex-syntax AST marks unsupported nodes", TECH),
 "C08": ("exploration", "5 C08", "TLC enumerates class-expression shapes (union, &&, --, ~~, negation and redundant nesting at any level over 5 base symbols) and defines Member(expr, atom); the harness instantiates the symbols from a table of 51 concrete items, measures every base item alone and every whole expression over ALL 1,112,064 scalars through the public API, and TLC compares the measured membership with Member on every realised atom; the base facts (literal, dot, ASCII parts of \\d \\s \\w, complements, inclusive range bounds) are checked by TLC on the measured tables. Exhaustive in the character domain, bounded/sampled in expression depth.", "items used alone are measured through the public API; TLC; regex-syntax", "TLA+ spec (CharClass!Member) evaluated by TLC on atoms measured over all scalars"),
 "C16": ("model_checking", "5 C16", "TLC enumerates abstract mode lists and Match/MatchExt/Span/Position values in the README layout and writes them with its own JSON serialiser; the harness deserialises them into the Rust types, compares with API-built values, re-serialises with serde_json, builds and scans both; TLC reads serde's text back and compares it with the abstract value; the README's JSON block is read verbatim.", "TLC's Json module as layout oracle; serde_json; token types concretised above 2^40, other numbers up to 2^31-1", "TLA+ spec (SerdeLayout) + TLC both ways through its own JSON serialiser"),
 "C18": ("translation_validation", "5 C18", "For generated, random, corpus and specially named configurations generate_compiled_automata_as_dot is called, every file is parsed with a parser for the DOT language as Graphviz defines it and TLC decides per file whether the parsed graph equals DotPicture!Picture(dump) (nodes, accepting labels, edges with class ids, one cluster per lookahead with polarity); directory listing (one file per mode, prefix_name.dot) and three unwritable-folder cases (must return Err).", "the harness' DOT parser; verif_dump hook; TLC", "TLA+ spec (DotPicture) relating the automaton dump to the parsed DOT file, decided by TLC"),
 "C14": ("model_checking", "5 C14", "The cache under its write lock is modelled with one action per step of ScannerCache::get (CacheConc); TLC checks exhaustively for 3 threads and all build programs that the cache stays coherent, every thread gets the sequential results and all programs terminate under weak fairness. For the code, N threads released by a barrier run seeded programs of builds and scans (first-use rounds behind spin barriers, re-scan bursts, shared and private scanners, lookaheads); the event log emitted by the hooks under the lock is validated by TLC against CacheConc's actions, every thread's calls against the sequential ScannerApi, a hang is a violation, and a probe crate decides Send + Sync at compile time. Sampled schedules, not all schedules.", "sampled real schedules; hooks emit events under the cache lock; TLC", "TLA+ spec (CacheConc) model-checked exhaustively + trace validation of recorded multi-threaded executions"),
 "C17": ("exploration", "5 C17", "Full-scale configurations crossing 2^16 automaton states (65 700 one-character patterns; thorough: a{66000}b) are built through the public API, scanned around the critical indices and the recorded calls are validated by TLC against the ordinary Tokenizer specification; a build error is admissible, a wrong token or a panic is a violation.", "a handful of full-scale cases; build time dominates", "recorded full-scale executions validated by TLC against the TLA+ Tokenizer specification"),
 "C12": ("model_checking", "5 C12", G_TEXT + T_TEXT + "up to five interleaved iterators over one scanner and over two scanners sharing one cached compilation, scanner-level set_mode, cached and uncached builds.", NOTE, TECH),
}
NOT_YET = {
}
def main():
    props = [json.loads(l) for l in open(os.path.join(VERIF, "properties.jsonl"))]
    checks = []
    na = []
    for p in props:
        i = p["id"]
        if i in CHECKS:
            cat, ref, text, note, tech = CHECKS[i]
            checks.append({
                "property_id": i,
                "quick_cmd": f"bin/check {i} --tier quick",
                "thorough_cmd": f"bin/check {i} --tier thorough",
                "evidence_file": f"/verif/evidence/{i}.json",
                "replay_cmd_template": f"bin/check {i} --replay {{path}}",
                "engine": "tla-model-based",
                "level_claimed": {"category": cat, "text": text, "design_ref": f"DESIGN.md section {ref}"},
                "level_note": note,
                "technique": tech,
            })
        else:
            na.append({"property_id": i, "reason": NOT_YET.get(i, "check not built yet (work in progress; the design in DESIGN.md section 5 covers it)")})
    m = {
        "version": 1,
        "setup_cmd": "bin/check --setup",
        "hooks": {
            "guard": "cargo feature verif_hooks (crate scnr)",
            "enable": "the harness depends on scnr with features = [\"verif_hooks\"] (harness/Cargo.toml); cargo build --release --offline in /verif/harness",
            "baseline_off_cmd": "cd /repo && cargo test --workspace --no-fail-fast --offline",
            "source_commits": HOOK_COMMITS,
            "add_only": True,
        },
        "engines": [{
            "name": "tla-model-based", "path": "/verif/spec",
            "serves_properties": sorted(CHECKS),
            "kind_free_text": "explicit TLA+ specification checked with TLC; bound to the code by replaying TLC-generated behaviours through the public API and by validating recorded executions and automaton dumps against the specification",
        }],
        "checks": checks,
        "not_applicable": na,
        "notes": "bin/check <id> rebuilds the harness (and scnr with hooks) from /repo's working tree on every run. Exit 2 = tool error.",
    }
    json.dump(m, open(os.path.join(VERIF, "MANIFEST.json"), "w"), indent=1)
if __name__ == "__main__":
    main()
