#!/usr/bin/env python3
"""Writes MANIFEST.json from the table below (one source of truth for commands and levels)."""
import json, os
VERIF = os.path.dirname(os.path.dirname(os.path.abspath(__file__)))
HOOK_COMMITS = ["a41b6df"]
T_TEXT = ("The harness drives the real code with seeded random configurations in real regex syntax, random inputs and random call histories, "
          "logs every public call with its arguments and result, and TLC decides whether the log is a behaviour of the TLA+ specification "
          "(Trace_Api over ScannerApi/Tokenizer/RegexSem); ")
G_TEXT = ("TLC enumerates all behaviours of the user-level specification (ScannerApi/Tokenizer/RegexSem) inside small bounds "
          "(pattern universe, input length, history depth) and each behaviour is replayed through the public API and compared result by result; ")
NOTE = "bounded worlds / sampled random histories; harness concretisation, atom computation and regex printer; regex-syntax parser; TLC and its Json module"
TECH = "TLA+ spec (ScannerApi) + TLC: generated behaviours replayed into the code, recorded executions validated by TLC"
CHECKS = {
 "C01": ("model_checking", "5 C01", G_TEXT + "modes without lookahead: longest match, priority, skipping, byte spans.", NOTE, TECH),
 "C04": ("model_checking", "5 C04", T_TEXT + "modes mixing positive, negative and no lookaheads, with with_offset/set_offset.", NOTE, TECH),
 "C05": ("model_checking", "5 C05", T_TEXT + "modes with two or more patterns and lookaheads: the reported token must be a member of Tokenizer!Best (maximal extent, then first pattern); a panic is an unexplained event.", NOTE, TECH),
 "C06": ("model_checking", "5 C06", T_TEXT + "random mode graphs, set_mode on iterators and scanners, new iterators; current_mode() is compared after every call.", NOTE, TECH),
 "C07": ("model_checking", "5 C07", T_TEXT + "hostile configurations (nullable patterns, 1-4 byte characters, empty inputs), calls after exhaustion; WellFormed/Progress are invariants of the specification and every logged token must be one the specification allows.", NOTE, TECH),
 "C09": ("model_checking", "5 C09", T_TEXT + "WithPositions iterators, position queries for scanned offsets, resets to earlier offsets, exhaustion.", NOTE, TECH),
 "C10": ("model_checking", "5 C10", T_TEXT + "with_offset/set_offset to every kind of boundary, peek_n + advance_to, set_mode.", NOTE, TECH),
 "C11": ("model_checking", "5 C11", T_TEXT + "peek_n(n) at random points of random histories; token list, classification, target mode and purity (later calls) are checked.", NOTE, TECH),
 "C12": ("model_checking", "5 C12", T_TEXT + "up to five interleaved iterators over one scanner, scanner-level set_mode, cached and uncached builds.", NOTE, TECH),
}
NOT_YET = {
}
def main():
    props = [json.loads(l) for l in open(os.path.join(VERIF, "properties.jsonl"))]
    checks = []
    na = []
    for p in props:
        i = p["id"]
        if i in CHECKS:
            cat, ref, text, note, tech = CHECKS[i]
            checks.append({
                "property_id": i,
                "quick_cmd": f"bin/check {i} --tier quick",
                "thorough_cmd": f"bin/check {i} --tier thorough",
                "evidence_file": f"/verif/evidence/{i}.json",
                "replay_cmd_template": f"bin/check {i} --replay {{path}}",
                "engine": "tla-model-based",
                "level_claimed": {"category": cat, "text": text, "design_ref": f"DESIGN.md section {ref}"},
                "level_note": note,
                "technique": tech,
            })
        else:
            na.append({"property_id": i, "reason": NOT_YET.get(i, "check not built yet (work in progress; the design in DESIGN.md section 5 covers it)")})
    m = {
        "version": 1,
        "setup_cmd": "bin/check --setup",
        "hooks": {
            "guard": "cargo feature verif_hooks (crate scnr)",
            "enable": "the harness depends on scnr with features = [\"verif_hooks\"] (harness/Cargo.toml); cargo build --release --offline in /verif/harness",
            "baseline_off_cmd": "cd /repo && cargo test --workspace --no-fail-fast --offline",
            "source_commits": HOOK_COMMITS,
            "add_only": True,
        },
        "engines": [{
            "name": "tla-model-based", "path": "/verif/spec",
            "serves_properties": sorted(CHECKS),
            "kind_free_text": "explicit TLA+ specification checked with TLC; bound to the code by replaying TLC-generated behaviours through the public API and by validating recorded executions and automaton dumps against the specification",
        }],
        "checks": checks,
        "not_applicable": na,
        "notes": "bin/check <id> rebuilds the harness (and scnr with hooks) from /repo's working tree on every run. Exit 2 = tool error.",
    }
    json.dump(m, open(os.path.join(VERIF, "MANIFEST.json"), "w"), indent=1)
if __name__ == "__main__":
    main()
