#!/usr/bin/env python3
"""Writes MANIFEST.json from the table below (one source of truth for commands and levels)."""
import json, os
VERIF = os.path.dirname(os.path.dirname(os.path.abspath(__file__)))
HOOK_COMMITS = ["a41b6df"]
CHECKS = {
 "C01": ("model_checking", "5 C01",
   "TLC enumerates all behaviours of the user-level specification (ScannerApi/Tokenizer/RegexSem) for every pattern set of a small regex universe and every input up to a length bound; each behaviour is replayed through the public API and compared result by result.",
   "bounded pattern universe/input length; harness concretisation of atoms and regex printer; regex-syntax parser; TLC",
   "TLA+ spec (ScannerApi) + TLC-generated behaviours replayed into the code"),
}
NOT_YET = {
}
def main():
    props = [json.loads(l) for l in open(os.path.join(VERIF, "properties.jsonl"))]
    checks = []
    na = []
    for p in props:
        i = p["id"]
        if i in CHECKS:
            cat, ref, text, note, tech = CHECKS[i]
            checks.append({
                "property_id": i,
                "quick_cmd": f"bin/check {i} --tier quick",
                "thorough_cmd": f"bin/check {i} --tier thorough",
                "evidence_file": f"/verif/evidence/{i}.json",
                "replay_cmd_template": f"bin/check {i} --replay {{path}}",
                "engine": "tla-model-based",
                "level_claimed": {"category": cat, "text": text, "design_ref": f"DESIGN.md section {ref}"},
                "level_note": note,
                "technique": tech,
            })
        else:
            na.append({"property_id": i, "reason": NOT_YET.get(i, "check not built yet (work in progress; the design in DESIGN.md section 5 covers it)")})
    m = {
        "version": 1,
        "setup_cmd": "bin/check --setup",
        "hooks": {
            "guard": "cargo feature verif_hooks (crate scnr)",
            "enable": "the harness depends on scnr with features = [\"verif_hooks\"] (harness/Cargo.toml); cargo build --release --offline in /verif/harness",
            "baseline_off_cmd": "cd /repo && cargo test --workspace --no-fail-fast --offline",
            "source_commits": HOOK_COMMITS,
            "add_only": True,
        },
        "engines": [{
            "name": "tla-model-based", "path": "/verif/spec",
            "serves_properties": sorted(CHECKS),
            "kind_free_text": "explicit TLA+ specification checked with TLC; bound to the code by replaying TLC-generated behaviours through the public API and by validating recorded executions and automaton dumps against the specification",
        }],
        "checks": checks,
        "not_applicable": na,
        "notes": "bin/check <id> rebuilds the harness (and scnr with hooks) from /repo's working tree on every run. Exit 2 = tool error.",
    }
    json.dump(m, open(os.path.join(VERIF, "MANIFEST.json"), "w"), indent=1)
if __name__ == "__main__":
    main()
