#!/bin/bash
# usage: run_some.sh <tier> <id>...   - runs the given checks in sequence, prints rc and wall time
cd /verif
tier=$1; shift
for c in "$@"; do
  s=$(date +%s)
  out=$(VERIF_SEED=${VERIF_SEED:-1} bin/check $c --tier $tier 2>&1)
  rc=$?
  e=$(date +%s)
  echo "$c tier=$tier rc=$rc $((e-s))s $(echo "$out" | grep -c '^VIOLATION') violations"
  echo "$out" | grep -E "^\[(gen|trace|model|equiv|dot|serde|classes|large|cache-trace|thread-results)\]|TOOL-ERROR" | sed 's/^/    /'
done
