#!/bin/bash
# tools/round3.sh <C> : confirm both mutations of /tmp/${ROUND_DIR:-w3}_<C> (tag ${ROUND_TAG:-s}), store them,
# and ONLY IF both are stored drop the worktree; then detect
c=$1
dir=/tmp/${ROUND_DIR:-w3}_$c
tag=${ROUND_TAG:-s}
cd /verif
for n in 1 2; do
  python3 tools/seed.py confirm $c $n $dir $tag 2>&1 | tail -1 | cut -c1-60
  [ -f $dir/REPORT.md ] && [ -d seeded/$c-$tag$n ] && cp $dir/REPORT.md seeded/$c-$tag$n/REPORT.md
done
if [ -f seeded/$c-${tag}1/patch.diff ] && [ -f seeded/$c-${tag}2/patch.diff ]; then
  git -C /repo worktree remove --force $dir
else
  echo "NOT STORED - worktree $dir kept"; exit 1
fi
for n in 1 2; do python3 tools/seed.py detect $c-$tag$n 2>&1 | tail -1 | cut -c1-170; done
git -C /repo status --short | head -3
