#!/bin/bash
# tools/round3.sh <C> : confirm both mutations of /tmp/w3_<C> (tag s), store, drop the worktree, detect
c=$1
cd /verif
for n in 1 2; do
  python3 tools/seed.py confirm $c $n /tmp/w3_$c s 2>&1 | tail -1 | cut -c1-60
  [ -f /tmp/w3_$c/REPORT.md ] && cp /tmp/w3_$c/REPORT.md seeded/$c-s$n/REPORT.md
done
git -C /repo worktree remove --force /tmp/w3_$c
for n in 1 2; do python3 tools/seed.py detect $c-s$n 2>&1 | tail -1 | cut -c1-170; done
git -C /repo status --short | head -3
