#!/usr/bin/env python3
"""tools/sweep.py [seed-id ...] : re-checks seeded changes (default: all of /verif/seeded) with the
quick tier of the owning property, WITHOUT touching /repo: a scratch worktree of /repo's HEAD and a
scratch copy of the harness (path dependency rewritten) under /tmp, own work and evidence
directories. Appends one line per seeded change to /verif/work/sweep.txt and removes the scratch
directories at the end. Not a registered check."""
import json, os, shutil, subprocess, sys, time
VERIF = "/verif"
TAG = os.environ.get("SWEEP_TAG", "sweep")
WT, HS, WK, EV = f"/tmp/wt_{TAG}", f"/tmp/h_{TAG}", f"/tmp/w_{TAG}", f"/tmp/e_{TAG}"

def sh(cmd, cwd=None, env=None):
    p = subprocess.run(cmd, shell=True, cwd=cwd, env=env, stdout=subprocess.PIPE, stderr=subprocess.STDOUT, text=True)
    return p.returncode, p.stdout

def main():
    # ids of seeded changes (seeded/<id>, expected: caught) or of behaviour-preserving changes
    # (preserving/<id>, expected: every check of the touched area exits 0); "preserving" = all of them
    def stored(kind):
        d = os.path.join(VERIF, kind)
        return sorted(x for x in os.listdir(d) if os.path.exists(os.path.join(d, x, "meta.json")))
    ids = sys.argv[1:] or stored("seeded")
    if ids == ["preserving"]:
        ids = stored("preserving")
    sh(f"git -C /repo worktree remove --force {WT}")
    for d in (HS, WK, EV):
        shutil.rmtree(d, ignore_errors=True)
    rc, out = sh(f"git -C /repo worktree add --detach {WT} HEAD")
    assert rc == 0, out
    shutil.copy("/repo/Cargo.lock", WT)
    sh(f"rsync -a --exclude target {VERIF}/harness/ {HS}/")
    for f in (f"{HS}/Cargo.toml", f"{HS}/sendsync/Cargo.toml"):
        t = open(f).read().replace('"/repo/scnr"', f'"{WT}/scnr"')
        open(f, "w").write(t)
    os.makedirs(WK, exist_ok=True); os.makedirs(EV, exist_ok=True)
    env = dict(os.environ, VERIF_HARNESS_DIR=HS, VERIF_WORK_DIR=WK, VERIF_EVIDENCE_DIR=EV, CARGO_NET_OFFLINE="true")
    log = open(os.path.join(VERIF, "work", "sweep.txt"), "a")
    log.write(f"# sweep {time.strftime('%Y-%m-%d %H:%M')} of {len(ids)} seeded changes\n")
    try:
        for sid in ids:
            keep = os.path.isdir(os.path.join(VERIF, "preserving", sid))
            dst = os.path.join(VERIF, "preserving" if keep else "seeded", sid)
            meta = json.load(open(os.path.join(dst, "meta.json")))
            if keep:
                checks = sorted(meta.get("checks", {}).keys())
            else:
                caught_by = [c for c, v in meta.get("detected_by", {}).items() if v.get("exit") == 1]
                checks = (caught_by or [meta["property"]])[:1]
            rc, out = sh(f"git apply {dst}/patch.diff", cwd=WT)
            if rc != 0:
                log.write(f"{sid} PATCH-FAILS {out.strip()[:100]}\n"); log.flush(); continue
            res = []
            for c in checks:
                t = time.time()
                rc, out = sh(f"bin/check {c} --tier quick", cwd=VERIF, env=env)
                nv = sum(1 for l in out.splitlines() if l.startswith("VIOLATION"))
                if rc == 2 or (keep and rc != 0):
                    with open(os.path.join(VERIF, "work", f"sweep_fail_{sid}_{c}.log"), "w") as f:
                        f.write(out[-8000:])
                res.append(f"{c} exit={rc} violations={nv} {time.time() - t:.0f}s")
            log.write(f"{sid} {'(must stay quiet) ' if keep else ''}{' '.join(res)}\n"); log.flush()
            sh("git checkout -- .", cwd=WT)
    finally:
        sh(f"git -C /repo worktree remove --force {WT}")
        for d in (HS, WK, EV):
            shutil.rmtree(d, ignore_errors=True)

if __name__ == "__main__":
    main()
