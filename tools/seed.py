#!/usr/bin/env python3
"""Seeded-fault bookkeeping.

  seed.py confirm <prop> <n> <worktree>   confirm a sub-agent's mutation in its scratch worktree
                                          (suite passes with it, demo fails with it and passes without)
                                          and store it as /verif/seeded/<prop>-m<n>/
  seed.py detect <seed-id> [check ...]    apply the stored patch to /repo, run the named checks
                                          (default: the property's own), undo, record who caught it
"""
import json, os, subprocess, sys, shutil, time
VERIF = "/verif"

def sh(cmd, cwd=None, timeout=3600):
    p = subprocess.run(cmd, shell=True, cwd=cwd, stdout=subprocess.PIPE, stderr=subprocess.STDOUT, text=True, timeout=timeout)
    return p.returncode, p.stdout

def suite(wt):
    rc, out = sh("cargo test --workspace --no-fail-fast --offline 2>&1 | grep -E '^test result|FAILED|failed' ", cwd=wt)
    lines = [l.split(" finished")[0] for l in out.splitlines() if l.startswith("test result")]
    return lines, out

def confirm(prop, n, wt, tag="m"):
    sid = f"{prop}-{tag}{n}"
    dst = os.path.join(VERIF, "seeded", sid)
    os.makedirs(dst, exist_ok=True)
    diff = os.path.join(wt, f"mutation{n}.diff")
    demo = os.path.join(wt, f"demo{n}.rs")
    demo_name = f"seed_demo_{prop.lower()}_{n}"
    sh("git checkout -- . ", cwd=wt)
    base, _ = suite(wt)
    shutil.copy(demo, os.path.join(wt, "scnr", "tests", demo_name + ".rs"))
    rc_clean, out_clean = sh(f"cargo test --offline -p scnr --test {demo_name} 2>&1 | tail -5", cwd=wt)
    clean_ok = "test result: ok" in out_clean
    os.remove(os.path.join(wt, "scnr", "tests", demo_name + ".rs"))
    rc, out = sh(f"git apply {diff}", cwd=wt)
    applied = rc == 0
    rc_b, out_b = sh("cargo build --offline --features verif_hooks 2>&1 | tail -3", cwd=os.path.join(wt, "scnr"))
    builds = "Finished" in out_b
    mut, mut_out = suite(wt)
    shutil.copy(demo, os.path.join(wt, "scnr", "tests", demo_name + ".rs"))
    rc_m, out_m = sh(f"cargo test --offline -p scnr --test {demo_name} 2>&1 | tail -8", cwd=wt)
    rc_m2, out_m2 = sh(f"cargo test --offline -p scnr --test {demo_name} 2>&1 | grep -E '^error' | head -3", cwd=wt)
    mut_fails = "test result: FAILED" in out_m or "panicked" in out_m or "error[E" in out_m2 or "could not compile" in out_m
    os.remove(os.path.join(wt, "scnr", "tests", demo_name + ".rs"))
    sh("git checkout -- . ", cwd=wt)
    ok = applied and builds and base == mut and clean_ok and mut_fails and all("0 failed" in l for l in mut)
    shutil.copy(diff, os.path.join(dst, "patch.diff"))
    shutil.copy(demo, os.path.join(dst, "demo.rs"))
    meta = {"id": sid, "property": prop, "confirmed": ok,
            "confirmation": {"patch_applies": applied, "builds_with_hooks": builds, "suite_clean": base, "suite_mutated": mut,
                             "demo_passes_clean": clean_ok, "demo_fails_mutated": mut_fails,
                             "ran": ["cargo test --workspace --no-fail-fast --offline (clean and mutated)",
                                     f"cargo test --offline -p scnr --test {demo_name} (clean: pass, mutated: fail)",
                                     "cargo build --offline --features verif_hooks (mutated)"], "worktree": wt},
            "needs_to_manifest": "", "detected_by": {}}
    old = os.path.join(dst, "meta.json")
    if os.path.exists(old):
        o = json.load(open(old))
        meta["needs_to_manifest"] = o.get("needs_to_manifest", "")
        meta["detected_by"] = o.get("detected_by", {})
    json.dump(meta, open(old, "w"), indent=1)
    print(sid, "CONFIRMED" if ok else "NOT CONFIRMED", json.dumps(meta["confirmation"])[:400])
    return ok

def detect(sid, checks):
    dst = os.path.join(VERIF, "seeded", sid)
    meta = json.load(open(os.path.join(dst, "meta.json")))
    prop = meta["property"]
    checks = checks or [prop]
    rc, out = sh("git status --porcelain", cwd="/repo")
    if out.strip():
        print("REFUSING: /repo has uncommitted changes"); return
    rc, out = sh(f"git apply {dst}/patch.diff", cwd="/repo")
    if rc != 0:
        print("patch does not apply:", out); return
    try:
        for c in checks:
            t = time.time()
            rc, out = sh(f"bin/check {c} --tier quick", cwd=VERIF)
            viol = [l for l in out.splitlines() if l.startswith("VIOLATION")]
            first = ""
            if viol:
                path = viol[0].split("replay=")[1]
                try:
                    v = json.load(open(path))
                    first = (v.get("difference") or "")[:200]
                except Exception:
                    pass
            meta["detected_by"][c] = {"exit": rc, "violations_printed": len(viol), "first": first, "wall_s": round(time.time() - t, 1)}
            print(sid, c, "exit", rc, "violations", len(viol), first[:120])
    finally:
        sh("git checkout -- .", cwd="/repo")
    json.dump(meta, open(os.path.join(dst, "meta.json"), "w"), indent=1)

if __name__ == "__main__":
    if sys.argv[1] == "confirm":
        confirm(sys.argv[2], int(sys.argv[3]), sys.argv[4], sys.argv[5] if len(sys.argv) > 5 else "m")
    elif sys.argv[1] == "detect":
        detect(sys.argv[2], sys.argv[3:])
