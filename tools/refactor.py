#!/usr/bin/env python3
"""Behaviour-preserving changes (written by sub-agents told to KEEP the properties true): the checks
must stay quiet on them.   refactor.py store <group> <n> <worktree>   |   refactor.py run <id> <check>..."""
import json, os, subprocess, sys, shutil, time
V = "/verif"
def sh(c, cwd=None):
    p = subprocess.run(c, shell=True, cwd=cwd, stdout=subprocess.PIPE, stderr=subprocess.STDOUT, text=True)
    return p.returncode, p.stdout
def store(g, n, wt):
    rid = f"{g}-{n}"; d = os.path.join(V, "preserving", rid); os.makedirs(d, exist_ok=True)
    shutil.copy(os.path.join(wt, f"refactor{n}.diff"), os.path.join(d, "patch.diff"))
    if os.path.exists(os.path.join(wt, "REPORT.md")):
        shutil.copy(os.path.join(wt, "REPORT.md"), os.path.join(d, "REPORT.md"))
    sh("git checkout -- .", cwd=wt)
    rc, out = sh(f"git apply {d}/patch.diff && cargo build --offline --features verif_hooks 2>&1 | tail -1 && cargo test --workspace --no-fail-fast --offline 2>&1 | grep -E '^test result' | sed 's/ finished.*//'", cwd=wt)
    sh("git checkout -- .", cwd=wt)
    meta = {"id": rid, "kind": "behaviour-preserving change (the checks must not alarm)", "suite_with_change": out.strip().splitlines(), "checks": {}}
    json.dump(meta, open(os.path.join(d, "meta.json"), "w"), indent=1)
    print(rid, "stored;", out.strip().splitlines()[-5:])
def run(rid, checks):
    d = os.path.join(V, "preserving", rid); meta = json.load(open(os.path.join(d, "meta.json")))
    rc, out = sh("git status --porcelain", cwd="/repo")
    if out.strip(): print("REFUSING: /repo dirty"); return
    rc, out = sh(f"git apply {d}/patch.diff", cwd="/repo")
    if rc != 0: print("patch does not apply", out); return
    try:
        for c in checks:
            t = time.time(); rc, out = sh(f"bin/check {c} --tier quick", cwd=V)
            viol = [l for l in out.splitlines() if l.startswith("VIOLATION")]
            tool = [l for l in out.splitlines() if "TOOL-ERROR" in l]
            meta["checks"][c] = {"exit": rc, "violations": len(viol), "tool_error": tool[:1], "wall_s": round(time.time() - t, 1)}
            print(rid, c, "exit", rc, "violations", len(viol), tool[:1])
    finally:
        sh("git checkout -- .", cwd="/repo")
    json.dump(meta, open(os.path.join(d, "meta.json"), "w"), indent=1)
if __name__ == "__main__":
    if sys.argv[1] == "store": store(sys.argv[2], sys.argv[3], sys.argv[4])
    else: run(sys.argv[2], sys.argv[3:])
