#!/usr/bin/env python3
"""Prints the table of DESIGN 0.45 from the evidence files of the last run (tools/legs_table.py [tier])."""
import json, glob, sys
def n(x): return f"{x:,}"
rows=[]
for f in sorted(glob.glob('/verif/evidence/C*.json')):
    e=json.load(open(f)); c=e['coverage']; parts=[]
    for l in c.get('legs', []):
        k=l.get('kind'); nm=l.get('name')
        if k=='gen': parts.append(f"G `{nm}` {n(l.get('behaviours',0))} behaviours")
        elif k=='trace': parts.append(f"T `{nm}` {n(l.get('traces',0))} traces / {n(l.get('events',0))} events")
        elif k=='model': parts.append(f"M `{nm}` {n(l.get('tlc_distinct') or 0)} states ({'counter-example' if l.get('expect')=='counter-example' else 'holds'})")
        elif k=='proof': parts.append(f"TLAPS `{nm}` {l.get('obligations')} obligations")
        elif k=='inductive': parts.append(f"Apalache `{nm}` {l.get('discharged')}/{l.get('obligations')}")
        elif k=='drift': parts.append(f"D `{nm}` {n(l.get('events_compared',l.get('events',0)))} events, drift {l.get('model_drift_events',0)}")
        else: parts.append(f"{k} `{nm}`")
    for l in c.get('design_models', []):
        parts.append(f"M `{l.get('name')}` ({'counter-example' if l.get('expect')=='counter-example' else 'holds'})")
    extra=[]
    for key in ('shapes','distinct_nontrivial','literal_facts','evaluations','traces_validated_against_impl','states'):
        if key in c and not c.get('legs'): extra.append(f"{key} {n(c[key]) if isinstance(c[key],int) else c[key]}")
    rows.append(f"| {e['property_id']} | {e['level']} | {e['tier']} {round(e['wall_s'])} s | {'; '.join(parts+extra)} |")
print("| id | level | tier, wall | legs |\n|---|---|---|---|")
print("\n".join(rows))
