#!/bin/bash
# collect_round.sh <prefix dir glob e.g. /tmp/w2_> <tag>: confirm every finished agent worktree, keep REPORT.md, remove the worktree
pre=$1; tag=$2
for d in ${pre}C*; do
  [ -f "$d/mutation1.diff" ] && [ -f "$d/mutation2.diff" ] && [ -f "$d/demo1.rs" ] && [ -f "$d/demo2.rs" ] || continue
  c=$(basename $d | sed 's/.*_//')
  for n in 1 2; do
    python3 /verif/tools/seed.py confirm $c $n $d $tag 2>&1 | tail -1 | cut -c1-40
    [ -f "$d/REPORT.md" ] && cp "$d/REPORT.md" /verif/seeded/$c-$tag$n/REPORT.md
  done
  git -C /repo worktree remove --force $d
done
